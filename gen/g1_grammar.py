"""
G1 -- ASTs of the documented CGsmiles base-graph grammar (docs/source/syntax/basic_graph_description.rst,
docstring of read_cgsmiles, tests/test_cgsmile_parsing.py), with

    render(ast)  -> str             the text '{...}'
    denote(ast)  -> networkx.Graph  the graph the grammar denotes (independent of the reader)
    expand(ast)  -> ast             multipliers written out longhand
    skeleton_shapes / c04_recipes / c04_annotated_recipes / c04_random / c05_recipes / c05_*_recipes / c05_random
                                    enumerators; they yield compact JSON *recipes* (or {'ast': ...}), `build(recipe)`
                                    makes the AST;  `parse(text)` / `selftest()` check G1 against the repo's own tests

AST (JSON-serialisable; a *chain* is a list of nodes, the AST is the top-level chain):

    node   = {'name': str,            node token [#name...]
              'ann': str,             annotation text placed verbatim after the name (';q=1;w=2'), '' = none
              'attrs': {key: value},  what that annotation means (charge / weight as floats, free keys as text);
                                      written by the generator that wrote 'ann', never derived by parsing it
              'in': sym,              bond symbol of the edge that attaches this node to its predecessor
                                      (previous node of the chain, or the anchor for the first node of a branch)
              'rings': [[sym, marker], ...]   ring markers after the node, marker = '3' or '%12'
              'mult': int | None,     multiplier |n on the node
              'br': [branch, ...]}    branches anchored on this node, in textual order
    branch = {'chain': chain, 'mult': int | None, 'inter': sym}
             'mult' is the multiplier after the closing parenthesis; 'inter' the symbol between ')' and '|'
             (bond order between consecutive copies of anchor+branch; only meaningful with 'mult')
    sym    in ('', '.', '-', '=', '#', '$')   ('' = no symbol = order 1; '-' = explicit order 1)

Where a symbol is rendered (the five documented positions):
    between two nodes        [#A]=[#B]
    before a ring marker     [#A]=1  (the symbol of the ring bond sits at the OPENING marker; the closing marker
                             carries either nothing or the same symbol -- a symbol at the closing marker only is
                             not documented and never generated)
    before a branch          [#A]=([#B]...)   ('in' of the first node of a branch is written before '(')
    after a branch           [#A]([#B])=[#C]  ('in' of the node that follows the branches of its predecessor);
                             between two branches [#A]([#B])=([#C]) it is at the same time 'after a branch' and
                             'before a branch' and refers to A-C under both readings
    around a multiplier      [#A]|3=[#B]  and  [#A]([#B])$|3.[#C]   (tests 19-22 of test_read_cgsmiles: the symbol
                             between ')' and '|' is the bond between consecutive copies of the anchor, the symbol
                             after |n is the bond from the LAST copy to what follows, the symbol before '(' is
                             the anchor-branch bond in every copy)

Scope decisions (DESIGN section 6, C04/C05) enforced by `scope_violation(ast)`:
    * ring markers are one digit or '%' + two digits; on a node all single-digit markers come before all %nn
      markers (a %nn marker directly followed by a digit marker is read as one three-digit id by the reader and
      as two markers by OpenSMILES; the docs promise neither);
    * a node never carries the same ring id twice; ring bonds never duplicate an edge or form a self loop
      (that is C20's fault class); every ring is closed;
    * multiplied nodes carry no ring markers (there is no documented position for them next to |n);
    * a multiplied branch is the only branch of its anchor (the docs do not say what is repeated otherwise),
      its anchor has no multiplier of its own (except with `allow_mult_anchor` and a flat branch: `[#A]|m(...)|n` is
      then `[#A]` written out m times with the multiplied branch on the last copy, see expand), and neither the
      anchor nor the branch content carries ring markers -- except when `allow_ring_in_unit` is set, then rings that open AND close inside one unit are
      allowed (the longhand is then unambiguous: every copy has its own ring);
    * no whitespace, no '+', nothing after a '(' but a node token.
"""
import functools
import re
import itertools
import random

import networkx as nx

SYMBOLS = ('', '.', '-', '=', '#', '$')
NONDEFAULT = ('.', '-', '=', '#', '$')
ORDER = {'': 1, '.': 0, '-': 1, '=': 2, '#': 3, '$': 4}
NAMES = ['A', 'B', 'C', 'D', 'E', 'F', 'G', 'H', 'I', 'J', 'K', 'L', 'M', 'N', 'O', 'P']
DEFAULT_ATTRS = {'charge': 0.0, 'weight': 1.0}

# (annotation text, meaning).  Written by hand: the meaning is what the syntax documentation says
# (q -> charge, w -> weight, both floats, positional order q then w, other keys verbatim text).
ANNOTATIONS = [
    (';q=1', {'charge': 1.0}),
    (';+1', {'charge': 1.0}),
    (';-0.25', {'charge': -0.25}),
    (';w=0.5', {'weight': 0.5}),
    (';0;0.5', {'charge': 0.0, 'weight': 0.5}),
    (';1e-1;w=2', {'charge': 0.1, 'weight': 2.0}),
    (';w=2;q=-1', {'charge': -1.0, 'weight': 2.0}),
    (';mass=72', {'mass': '72'}),
    (';q=1;mass=72', {'charge': 1.0, 'mass': '72'}),
    (';r=abc;w=3', {'weight': 3.0, 'r': 'abc'}),
]


# ------------------------------------------------------------------------------------------------
# constructors
# ------------------------------------------------------------------------------------------------
def mk_node(name, ann='', attrs=None, in_='', rings=(), mult=None, br=()):
    return {'name': name, 'ann': ann, 'attrs': dict(attrs or {}), 'in': in_,
            'rings': [list(r) for r in rings], 'mult': mult, 'br': list(br)}


def mk_branch(chain, mult=None, inter=''):
    return {'chain': list(chain), 'mult': mult, 'inter': inter}


def copy_ast(chain):
    return [{'name': n['name'], 'ann': n['ann'], 'attrs': dict(n['attrs']), 'in': n['in'],
             'rings': [list(r) for r in n['rings']], 'mult': n['mult'],
             'br': [{'chain': copy_ast(b['chain']), 'mult': b['mult'], 'inter': b['inter']} for b in n['br']]}
            for n in chain]


def ring_id(marker):
    return int(marker[1:]) if marker.startswith('%') else int(marker)


def flat_nodes(chain, out=None, parents=None, parent=None, depth=0, depths=None):
    """Node dicts in order of appearance (pre-order); optionally the tree parent of each (index or None)."""
    if out is None:
        out = []
    prev = parent
    for n in chain:
        idx = len(out)
        out.append(n)
        if parents is not None:
            parents.append(prev)
        if depths is not None:
            depths.append(depth)
        for b in n['br']:
            flat_nodes(b['chain'], out, parents, idx, depth + 1, depths)
        prev = idx
    return out


# ------------------------------------------------------------------------------------------------
# render
# ------------------------------------------------------------------------------------------------
def _render_chain(chain, parts):
    for i, n in enumerate(chain):
        if i > 0:
            parts.append(n['in'])
        parts.append('[#' + n['name'] + n['ann'] + ']')
        for sym, marker in n['rings']:
            parts.append(sym + marker)
        if n['mult'] is not None:
            parts.append('|%d' % n['mult'])
        for b in n['br']:
            parts.append(b['chain'][0]['in'] + '(')
            _render_chain(b['chain'], parts)
            parts.append(')')
            if b['mult'] is not None:
                parts.append(b['inter'] + '|%d' % b['mult'])


def render(ast):
    """The CGsmiles text of the AST, including the enclosing braces."""
    parts = ['{']
    _render_chain(ast, parts)
    parts.append('}')
    return ''.join(parts)


# ------------------------------------------------------------------------------------------------
# expand (multipliers -> longhand)
# ------------------------------------------------------------------------------------------------
def has_multiplier(chain):
    return any(n['mult'] is not None or any(b['mult'] is not None or has_multiplier(b['chain']) for b in n['br'])
               for n in chain)


def has_branch_multiplier(chain):
    return any(any(b['mult'] is not None or has_branch_multiplier(b['chain']) for b in n['br']) for n in chain)


def expand(ast):
    """
    Longhand AST: `[#A]|n` becomes n nodes A in a row (the first keeps the incoming symbol, the others are
    bonded with the default order, the last one keeps the branches); `[#A](...)x|n` becomes n copies of
    anchor+branch in a row, the first keeps the anchor's incoming symbol, copy i+1 is attached to the anchor of
    copy i with the symbol x.  What follows in the chain attaches to the last copy (that is simply the next
    element of the chain).  `[#A]|m(...)x|n`: both rules in that order - m-1 nodes A, then n copies of A+branch.
    """
    out = []
    for n in ast:
        brs = [{'chain': expand(b['chain']), 'mult': b['mult'], 'inter': b['inter']} for b in n['br']]
        base = {'name': n['name'], 'ann': n['ann'], 'attrs': dict(n['attrs']), 'in': n['in'],
                'rings': [list(r) for r in n['rings']], 'mult': None, 'br': []}
        if n['mult'] is not None:
            multiplied_branch = len(brs) == 1 and brs[0]['mult'] is not None
            for i in range(n['mult'] - (1 if multiplied_branch else 0)):
                c = copy_ast([base])[0]
                if i > 0:
                    c['in'] = ''
                out.append(c)
            if not multiplied_branch:
                # branches belong to the last copy
                if n['mult'] >= 1:
                    out[-1]['br'] = [{'chain': b['chain'], 'mult': None, 'inter': ''} for b in brs]
                continue
            # `[#A]|m(...)x|n`: the node multiplier written out gives m nodes A, the branch is anchored on the last of
            # them; that last copy is the anchoring node of the multiplied branch and is handled below like any anchor
            if n['mult'] > 1:
                base['in'] = ''
        if len(brs) == 1 and brs[0]['mult'] is not None:
            b = brs[0]
            for i in range(b['mult']):
                c = copy_ast([base])[0]
                if i > 0:
                    c['in'] = b['inter']
                c['br'] = [{'chain': copy_ast(b['chain']), 'mult': None, 'inter': ''}]
                out.append(c)
            continue
        base['br'] = [{'chain': b['chain'], 'mult': None, 'inter': ''} for b in brs]
        out.append(base)
    return out


# ------------------------------------------------------------------------------------------------
# denote
# ------------------------------------------------------------------------------------------------
class NotInGrammar(ValueError):
    pass


def node_attrs(n):
    a = {'fragname': n['name']}
    a.update(DEFAULT_ATTRS)
    a.update(n['attrs'])
    return a


def denote_lists(ast):
    """
    (nodes, edges) of the denoted graph: nodes = [attrs dict, ...] (index = node key = order of appearance),
    edges = {(u, v): order} with u < v.  Raises NotInGrammar for a dangling ring, a duplicate edge or a loop.
    Multipliers are expanded first.
    """
    if has_multiplier(ast):
        ast = expand(ast)
    nodes = []
    edges = {}
    open_rings = {}

    def add_edge(u, v, order):
        if u == v or (u, v) in edges:
            raise NotInGrammar('duplicate edge or self loop %d-%d' % (u, v))
        edges[(u, v)] = order

    def walk(chain, anchor):
        prev = anchor
        for n in chain:
            idx = len(nodes)
            nodes.append(node_attrs(n))
            if prev is not None:
                add_edge(prev, idx, ORDER[n['in']])
            for sym, marker in n['rings']:
                rid = ring_id(marker)
                if rid in open_rings:
                    start, osym = open_rings.pop(rid)
                    if sym not in ('', osym):
                        raise NotInGrammar('closing symbol differs from opening symbol')
                    add_edge(start, idx, ORDER[osym])
                else:
                    open_rings[rid] = (idx, sym)
            for b in n['br']:
                walk(b['chain'], idx)
            prev = idx

    walk(ast, None)
    if open_rings:
        raise NotInGrammar('dangling ring')
    return nodes, edges


def denote(ast):
    """Expected graph: node keys 0.. in order of appearance, attributes fragname/charge/weight/free keys,
    edges with attribute `order`."""
    nodes, edges = denote_lists(ast)
    g = nx.Graph()
    for i, a in enumerate(nodes):
        g.add_node(i, **a)
    for (u, v), o in edges.items():
        g.add_edge(u, v, order=o)
    return g


# ------------------------------------------------------------------------------------------------
# scope
# ------------------------------------------------------------------------------------------------
def _markers_in(chain):
    for n in chain:
        for r in n['rings']:
            yield r
        for b in n['br']:
            yield from _markers_in(b['chain'])


def _unit_rings_closed(anchor):
    """every ring id on the anchor / inside its branch is opened and closed inside that unit, ids not reused"""
    count = {}
    for sym, marker in list(anchor['rings']) + list(_markers_in(anchor['br'][0]['chain'])):
        count[ring_id(marker)] = count.get(ring_id(marker), 0) + 1
    return all(c == 2 for c in count.values())


def scope_violation(ast, max_depth=3, allow_ring_in_unit=False, _depth=0, allow_mult_anchor=False):
    """None if the AST is inside the documented grammar and the scope decisions, else a reason.
    allow_mult_anchor: admit `[#A]|m(...)|n` when the branch content is flat (C05's multiplied-anchor family)."""
    for i, n in enumerate(ast):
        if _depth == 0 and i == 0 and n['in'] != '':
            return 'symbol before the first node'
        seen = set()
        pct = False
        for sym, marker in n['rings']:
            if marker.startswith('%'):
                if len(marker) != 3:
                    return 'ring marker form'
                pct = True
            else:
                if len(marker) != 1:
                    return 'ring marker form'
                if pct:
                    return '%nn marker before a digit marker'
            rid = ring_id(marker)
            if rid in seen:
                return 'same ring id twice on one node'
            seen.add(rid)
        if n['mult'] is not None:
            if n['rings']:
                return 'ring marker on a multiplied node'
            if n['mult'] < 1:
                return 'multiplier < 1'
        for b in n['br']:
            if _depth + 1 > max_depth:
                return 'nesting deeper than the bound'
            if not b['chain']:
                return 'empty branch'
            if b['mult'] is None and b['inter'] != '':
                return 'inter symbol without multiplier'
            if b['mult'] is not None:
                if len(n['br']) != 1:
                    return 'multiplied branch on an anchor with several branches'
                if n['mult'] is not None:
                    if not allow_mult_anchor or n['mult'] < 1 or any(m['br'] or m['mult'] is not None for m in b['chain']):
                        return 'multiplied anchor of a multiplied branch'
                if b['mult'] < 1:
                    return 'multiplier < 1'
                if n['rings'] or any(True for _ in _markers_in(b['chain'])):
                    if not allow_ring_in_unit or not _unit_rings_closed(n):
                        return 'ring marker inside a multiplied unit'
            r = scope_violation(b['chain'], max_depth, allow_ring_in_unit, _depth + 1, allow_mult_anchor)
            if r:
                return r
    if _depth == 0:
        try:
            denote_lists(ast)
        except NotInGrammar as e:
            return str(e)
    return None


# ------------------------------------------------------------------------------------------------
# features (for the non-triviality rules of the property modules)
# ------------------------------------------------------------------------------------------------
def features(ast):
    f = {'branch': 0, 'nested': 0, 'ring': 0, 'pct_ring': 0, 'symbol': 0, 'annotation': 0,
         'node_mult': 0, 'branch_mult': 0, 'tokens': 0}

    def walk(chain, depth, top):
        for i, n in enumerate(chain):
            f['tokens'] += 1
            if n['in'] and not (top and i == 0):
                f['symbol'] += 1
            for sym, marker in n['rings']:
                f['ring'] += 1
                if marker.startswith('%'):
                    f['pct_ring'] += 1
                if sym:
                    f['symbol'] += 1
            if n['ann']:
                f['annotation'] += 1
            if n['mult'] is not None:
                f['node_mult'] += 1
            for b in n['br']:
                f['branch'] += 1
                if depth >= 1:
                    f['nested'] += 1
                if b['mult'] is not None:
                    f['branch_mult'] += 1
                    if b['inter']:
                        f['symbol'] += 1
                walk(b['chain'], depth + 1, False)
    walk(ast, 0, True)
    return f


# ------------------------------------------------------------------------------------------------
# skeletons: every arrangement of k node tokens into chains and branches
# ------------------------------------------------------------------------------------------------
@functools.lru_cache(maxsize=None)
def _chains(k, depth_left, max_branches):
    """chains with exactly k node tokens; chain = tuple of nodes, node = tuple of branches, branch = chain"""
    res = []
    for j in range(0, k):
        for brs in _branch_seqs(j, depth_left, max_branches):
            rest = k - 1 - j
            if rest == 0:
                res.append((brs,))
            else:
                for tail in _chains(rest, depth_left, max_branches):
                    res.append((brs,) + tail)
    return tuple(res)


@functools.lru_cache(maxsize=None)
def _branch_seqs(j, depth_left, max_branches):
    if j == 0:
        return ((),)
    if depth_left == 0 or max_branches == 0:
        return ()
    res = []
    for s in range(1, j + 1):
        for c in _chains(s, depth_left - 1, 3):
            for rest in _branch_seqs(j - s, depth_left, max_branches - 1):
                res.append((c,) + rest)
    return tuple(res)


def _name(i):
    return NAMES[i % len(NAMES)] + ('' if i < len(NAMES) else str(i // len(NAMES)))


def skeleton_to_ast(skel, counter=None):
    """skeleton (nested lists: chain = [node..], node = [branch..], branch = chain) -> undecorated AST with
    names A, B, C ... in order of appearance"""
    if counter is None:
        counter = [0]
    chain = []
    for brs in skel:
        n = mk_node(_name(counter[0]))
        counter[0] += 1
        chain.append(n)
        for b in brs:
            n['br'].append(mk_branch(skeleton_to_ast(b, counter)))
    return chain


def _to_lists(skel):
    return [[_to_lists(b) for b in node] for node in skel]


def skeleton_shapes(k, max_depth=3, max_branches=3):
    """All arrangements of exactly k node tokens (at most max_branches branches per node, nesting <= max_depth)
    as nested lists."""
    for skel in _chains(k, max_depth, max_branches):
        yield _to_lists(skel)


def skeletons(k, max_depth=3, max_branches=3):
    """All ASTs with exactly k node tokens, no decoration."""
    for skel in skeleton_shapes(k, max_depth, max_branches):
        yield skeleton_to_ast(skel)


def skeleton_parents(skel):
    parents = []
    flat_nodes(skeleton_to_ast(skel), parents=parents)
    return parents


# ------------------------------------------------------------------------------------------------
# recipes: compact, JSON-serialisable descriptions of a decorated AST (cheap to enumerate and to pickle;
# `build(recipe)` makes the AST).  All enumerators yield recipes; `asts(recipes)` converts.
#
#   {'skel': nested lists,
#    'in':   [sym for node 1, 2, ... in order of appearance]            (optional)
#    'rings': [[u, v, spelling, sym, both, id], ...]                      (optional) ring bond between nodes u < v,
#             spelling in RING_SPELLINGS, symbol at the opening marker (and at the closing marker when `both`)
#    'mult': [[kind, node index, n, inter symbol], ...]                   (optional) kind 'node' | 'branch'
#    'ann':  [[node index, index into ANNOTATIONS], ...]}                 (optional)
# A case may also carry a complete AST under 'ast' (random part).
# ------------------------------------------------------------------------------------------------
RING_SPELLINGS = {
    # name: (opening marker, closing marker) for ring id i (1..9)
    'd': lambda i: (str(i), str(i)),
    'p': lambda i: ('%1' + str(i), '%1' + str(i)),
    'dp': lambda i: (str(i), '%0' + str(i)),
    'pd': lambda i: ('%0' + str(i), str(i)),
}


def _sorted_rings(rings):
    """digit markers before %nn markers, otherwise keep the order"""
    return [r for r in rings if not r[1].startswith('%')] + [r for r in rings if r[1].startswith('%')]


def build(recipe):
    """recipe (or {'ast': ...}) -> AST"""
    if 'ast' in recipe:
        return recipe['ast']
    ast = skeleton_to_ast(recipe['skel'])
    flat = flat_nodes(ast)
    for n, s in zip(flat[1:], recipe.get('in', ())):
        n['in'] = s
    for kind, i, n, inter in recipe.get('mult', ()):
        if kind == 'node':
            flat[i]['mult'] = n
        else:
            flat[i]['br'][0]['mult'] = n
            flat[i]['br'][0]['inter'] = inter
    touched = []
    for u, v, spelling, sym, both, rid in recipe.get('rings', ()):
        om, cm = RING_SPELLINGS[spelling](rid)
        flat[u]['rings'].append([sym, om])
        flat[v]['rings'].append([sym if both else '', cm])
        touched += [u, v]
    for i in touched:
        flat[i]['rings'] = _sorted_rings(flat[i]['rings'])
    for i, a in recipe.get('ann', ()):
        flat[i]['ann'] = ANNOTATIONS[a][0]
        flat[i]['attrs'] = dict(ANNOTATIONS[a][1])
    return ast


def asts(recipes):
    for r in recipes:
        yield build(r)


def symbol_assignments(n_positions, max_nondefault, symbols=NONDEFAULT):
    """tuples of symbols for n positions with at most max_nondefault entries different from ''"""
    base = [''] * n_positions
    yield tuple(base)
    for r in range(1, min(max_nondefault, n_positions) + 1):
        for pos in itertools.combinations(range(n_positions), r):
            for syms in itertools.product(symbols, repeat=r):
                t = base[:]
                for p, s in zip(pos, syms):
                    t[p] = s
                yield tuple(t)


def ring_pair_sets(n_nodes, parents, max_rings):
    """sets of up to max_rings distinct node pairs (u < v) that are not tree edges"""
    tree = {(p, i) for i, p in enumerate(parents) if p is not None}
    pairs = [(u, v) for u in range(n_nodes) for v in range(u + 1, n_nodes) if (u, v) not in tree]
    yield ()
    for r in range(1, max_rings + 1):
        for combo in itertools.combinations(pairs, r):
            yield combo


# ------------------------------------------------------------------------------------------------
# C04 enumerators (no multipliers)
# ------------------------------------------------------------------------------------------------
def c04_recipes(max_tokens, max_depth=3, max_rings=2, max_nondefault=2, min_tokens=1,
                spellings=('d', 'p', 'dp', 'pd')):
    """
    Every skeleton with min_tokens..max_tokens node tokens x every set of <= max_rings ring bonds (between nodes
    that are not already bonded; all of them may be open at the same time) x ring spellings x every assignment
    of bond symbols to the positions (one per tree edge, one per ring bond) with at most max_nondefault
    symbols.  One ring takes every spelling (digit, %nn, digit opened / %0n closed and the reverse); two rings
    take (d,d) (p,p) (d,p) (p,d) (dp,pd), and when the first is closed before the second is opened additionally
    the same id for both.  A ring symbol is written at the opening marker; with a non-default symbol the
    variant 'same symbol at both markers' is added.  Every recipe is inside the scope by construction.
    """
    for k in range(min_tokens, max_tokens + 1):
        for skel in skeleton_shapes(k, max_depth):
            parents = skeleton_parents(skel)
            n_edges = k - 1
            for pairs in ring_pair_sets(k, parents, max_rings):
                nr = len(pairs)
                if nr == 0:
                    spell_opts = [((), ())]
                elif nr == 1:
                    spell_opts = [((s,), (1,)) for s in spellings]
                else:
                    ids = tuple(range(1, nr + 1))
                    spell_opts = [(('d',) * nr, ids), (('p',) * nr, ids), (('d', 'p') + ('d',) * (nr - 2), ids),
                                  (('p', 'd') + ('d',) * (nr - 2), ids), (('dp', 'pd') + ('d',) * (nr - 2), ids)]
                    if nr == 2 and pairs[0][1] < pairs[1][0]:
                        spell_opts += [(('d', 'd'), (1, 1)), (('p', 'p'), (1, 1))]
                for assign in symbol_assignments(n_edges + nr, max_nondefault):
                    ins = list(assign[:n_edges])
                    rsyms = assign[n_edges:]
                    close_opts = [(False,) * nr]
                    if any(rsyms):
                        close_opts.append(tuple(bool(s) for s in rsyms))
                    for sp, ids in spell_opts:
                        for cl in close_opts:
                            r = {'skel': skel, 'in': ins}
                            if nr:
                                r['rings'] = [[pairs[i][0], pairs[i][1], sp[i], rsyms[i], cl[i], ids[i]] for i in range(nr)]
                            yield r


def c04_annotated_recipes(max_tokens, max_depth=3):
    """Every skeleton x every single node x every annotation of ANNOTATIONS, alone, with a symbol on the next
    node, and with a ring opened on the annotated node (the annotation must not disturb what follows it)."""
    for k in range(1, max_tokens + 1):
        for skel in skeleton_shapes(k, max_depth):
            parents = skeleton_parents(skel)
            tree = {(p, i) for i, p in enumerate(parents) if p is not None}
            for pos in range(k):
                for a in range(len(ANNOTATIONS)):
                    yield {'skel': skel, 'ann': [[pos, a]]}
                    if pos + 1 < k:
                        ins = [''] * (k - 1)
                        ins[pos] = '='
                        yield {'skel': skel, 'ann': [[pos, a]], 'in': ins}
                    if pos < k - 1 and (pos, k - 1) not in tree:
                        yield {'skel': skel, 'ann': [[pos, a]], 'rings': [[pos, k - 1, 'd', '#', False, 1]]}
            if k >= 2:
                # every node annotated at once
                yield {'skel': skel, 'ann': [[i, (i * 3 + k) % len(ANNOTATIONS)] for i in range(k)]}


def random_skeleton(rng, n_tokens, max_depth=3, p_branch=0.35):
    """random arrangement of n_tokens node tokens (AST)"""
    counter = [0]

    def chain(budget, depth):
        out = []
        while budget > 0:
            n = mk_node(_name(counter[0]))
            counter[0] += 1
            budget -= 1
            out.append(n)
            while budget > 0 and depth < max_depth and len(n['br']) < 3 and rng.random() < p_branch:
                size = rng.randint(1, max(1, min(budget, 4)))
                n['br'].append(mk_branch(chain(size, depth + 1)))
                budget -= size
        return out
    return chain(n_tokens, 0)


def _max_open(ast):
    open_now = set()
    best = 0
    for n in flat_nodes(ast):
        for sym, marker in n['rings']:
            rid = ring_id(marker)
            if rid in open_now:
                open_now.discard(rid)
            else:
                open_now.add(rid)
                best = max(best, len(open_now))
    return best


def add_random_rings(rng, ast, candidates, want, max_depth=3, p_sym=0.3, max_open=3, allow_ring_in_unit=False):
    """try to add `want` ring bonds between the candidate node pairs; returns a new AST inside the scope"""
    candidates = list(candidates)
    rng.shuffle(candidates)
    rid = 1 + max([ring_id(m) % 10 for _, m in _markers_in(ast)] or [0])
    for (u, v) in candidates:
        if want <= 0 or rid > 9:
            break
        trial = copy_ast(ast)
        tf = flat_nodes(trial)
        form = rng.choice(['d', 'd', 'p', 'dp', 'pd'])
        om, cm = RING_SPELLINGS[form](rid)
        sym = rng.choice(NONDEFAULT) if rng.random() < p_sym else ''
        both = bool(sym) and rng.random() < 0.3
        tf[u]['rings'].append([sym, om])
        tf[v]['rings'].append([sym if both else '', cm])
        for n in (tf[u], tf[v]):
            rng.shuffle(n['rings'])
            n['rings'] = _sorted_rings(n['rings'])
        if scope_violation(trial, max_depth, allow_ring_in_unit) is None and _max_open(trial) <= max_open:
            ast = trial
            rid += 1
            want -= 1
    return ast


def decorate_random(rng, ast, max_depth=3, p_sym=0.3, p_ann=0.25, max_rings=3, max_open=3):
    """random symbols, annotations and rings (no multipliers); result is always inside the scope"""
    ast = copy_ast(ast)
    parents = []
    flat = flat_nodes(ast, parents=parents)
    for n in flat[1:]:
        if rng.random() < p_sym:
            n['in'] = rng.choice(NONDEFAULT)
    for n in flat:
        if rng.random() < p_ann:
            ann, attrs = rng.choice(ANNOTATIONS)
            n['ann'] = ann
            n['attrs'] = dict(attrs)
    k = len(flat)
    tree = {(p, i) for i, p in enumerate(parents) if p is not None}
    pairs = [(u, v) for u in range(k) for v in range(u + 1, k) if (u, v) not in tree]
    return add_random_rings(rng, ast, pairs, rng.randint(0, max_rings), max_depth, p_sym, max_open)


def c04_random(seed, count, min_tokens=5, max_tokens=14, max_depth=3):
    """seeded random ASTs (as {'ast': ...} cases) beyond the exhaustive bound"""
    rng = random.Random(seed * 104729 + 4)
    for _ in range(count):
        k = rng.randint(min_tokens, max_tokens)
        yield {'ast': decorate_random(rng, random_skeleton(rng, k, max_depth), max_depth)}


# ------------------------------------------------------------------------------------------------
# C05 enumerators (multipliers)
# ------------------------------------------------------------------------------------------------
def multiplier_sites(ast):
    """
    ('node', i) for every node i (order of appearance), ('branch', i) for every node i with exactly one branch.
    """
    sites = []
    for i, n in enumerate(flat_nodes(ast)):
        sites.append(('node', i))
        if len(n['br']) == 1:
            sites.append(('branch', i))
    return sites


def _unit_members(ast):
    """indices (order of appearance in the shorthand AST) of nodes that are inside some multiplied unit"""
    inside = set()
    counter = [0]

    def walk(chain, in_unit):
        for n in chain:
            idx = counter[0]
            counter[0] += 1
            if in_unit or n['mult'] is not None or any(b['mult'] is not None for b in n['br']):
                inside.add(idx)
            for b in n['br']:
                walk(b['chain'], in_unit or b['mult'] is not None)
    walk(ast, False)
    return inside


def ring_pairs_outside_units(ast, parents):
    inside = _unit_members(ast)
    k = len(parents)
    tree = {(p, i) for i, p in enumerate(parents) if p is not None}
    return [(u, v) for u in range(k) for v in range(u + 1, k)
            if u not in inside and v not in inside and (u, v) not in tree]


def c05_recipes(max_tokens, max_depth=3, max_mults=2, counts=(2, 3), max_nondefault=2, min_tokens=1,
                symbols=NONDEFAULT, with_ring=True, branch_in_unit=True, min_mults=1):
    """
    Every skeleton with min_tokens..max_tokens node tokens x every choice of min_mults..max_mults multiplier sites (any node, any
    branch that is the only branch of its anchor; an anchor with a multiplier of its own is excluded) x counts x
    every assignment of bond symbols to the positions (incoming symbol of every node but the first -- for the
    node after a multiplied unit that is the symbol after |n --, and the 'inter' symbol of every multiplied
    branch) with at most max_nondefault symbols.  With `with_ring`: one ring bond (plain and '=') between two
    nodes outside every multiplied unit, without other symbols.  With branch_in_unit False, multiplied
    branches whose content contains a branch are left out.
    """
    for k in range(min_tokens, max_tokens + 1):
        for skel in skeleton_shapes(k, max_depth):
            base = skeleton_to_ast(skel)
            sites = multiplier_sites(base)
            parents = skeleton_parents(skel)
            for r in range(min_mults, max_mults + 1):
                for chosen in itertools.combinations(sites, r):
                    probe = build({'skel': skel, 'mult': [[kind, i, 2, ''] for kind, i in chosen]})
                    if scope_violation(probe, max_depth) is not None:
                        continue
                    if not branch_in_unit and outer_multiplied_branch_contains_branch(probe):
                        continue
                    n_inter = sum(1 for kind, _ in chosen if kind == 'branch')
                    ring_pairs = ring_pairs_outside_units(probe, parents) if with_ring else []
                    for ns in itertools.product(counts, repeat=r):
                        for assign in symbol_assignments(k - 1 + n_inter, max_nondefault, symbols):
                            inter = iter(assign[k - 1:])
                            yield {'skel': skel, 'in': list(assign[:k - 1]),
                                   'mult': [[kind, i, n, next(inter) if kind == 'branch' else '']
                                            for (kind, i), n in zip(chosen, ns)]}
                        for (u, v) in ring_pairs:
                            for sym in ('', '='):
                                yield {'skel': skel, 'mult': [[kind, i, n, ''] for (kind, i), n in zip(chosen, ns)],
                                       'rings': [[u, v, 'd', sym, False, 1]]}


def c05_annotated_recipes(max_tokens, max_depth=3, branch_in_unit=False):
    """one multiplier |2, and an annotation on one node inside the multiplied unit (every copy must carry it)"""
    anns = [0, 4, 8]
    for k in range(1, max_tokens + 1):
        for skel in skeleton_shapes(k, max_depth):
            for kind, i in multiplier_sites(skeleton_to_ast(skel)):
                mult = [[kind, i, 2, '']]
                probe = build({'skel': skel, 'mult': mult})
                if scope_violation(probe, max_depth) is not None:
                    continue
                if not branch_in_unit and outer_multiplied_branch_contains_branch(probe):
                    continue
                for m in sorted(_unit_members(probe)):
                    for a in anns:
                        yield {'skel': skel, 'mult': mult, 'ann': [[m, a]]}


def c05_multiplied_anchor_recipes(max_tokens, max_depth=3, counts=(2, 3), max_nondefault=1):
    """`[#A]|m(...)|n`: a multiplied node directly followed by a multiplied FLAT branch (no branch and no multiplier
    inside the branch).  Every skeleton x every such anchor x counts m, n x every assignment of at most max_nondefault
    bond symbols (incoming symbols, the symbol between ')' and '|'), and one annotation on the anchor / on the first node
    of the branch.  Needs allow_mult_anchor in scope_violation."""
    for k in range(2, max_tokens + 1):
        for skel in skeleton_shapes(k, max_depth):
            base = skeleton_to_ast(skel)
            flat = flat_nodes(base)
            for kind, i in multiplier_sites(base):
                if kind != 'branch' or any(m['br'] for m in flat[i]['br'][0]['chain']):
                    continue
                probe = build({'skel': skel, 'mult': [['node', i, 2, ''], ['branch', i, 2, '']]})
                if scope_violation(probe, max_depth, allow_mult_anchor=True) is not None:
                    continue
                for m, n in itertools.product(counts, repeat=2):
                    mult = [['node', i, m, ''], ['branch', i, n, '']]
                    for assign in symbol_assignments(k, max_nondefault):
                        yield {'skel': skel, 'in': list(assign[:k - 1]), 'mult': [mult[0], ['branch', i, n, assign[k - 1]]]}
                    for a in (0, 8):
                        yield {'skel': skel, 'mult': mult, 'ann': [[i, a]]}
                        yield {'skel': skel, 'mult': mult, 'ann': [[i + 1, a]]}


def multiplied_anchor_of_multiplied_branch(chain):
    """some node with |m anchors a branch with |n"""
    return any(any((b['mult'] is not None and n['mult'] is not None) or multiplied_anchor_of_multiplied_branch(b['chain'])
                   for b in n['br']) for n in chain)


def c05_ring_in_unit_recipes(max_tokens, max_depth=3):
    """a multiplied flat branch whose unit (anchor + branch) contains one ring that opens and closes inside the
    unit (needs allow_ring_in_unit in scope_violation)"""
    for k in range(3, max_tokens + 1):
        for skel in skeleton_shapes(k, max_depth):
            base = skeleton_to_ast(skel)
            parents = skeleton_parents(skel)
            tree = {(p, i) for i, p in enumerate(parents) if p is not None}
            flat = flat_nodes(base)
            for kind, i in multiplier_sites(base):
                if kind != 'branch':
                    continue
                sub = flat_nodes(flat[i]['br'][0]['chain'])
                if any(m['br'] for m in sub):
                    continue
                members = list(range(i, i + 1 + len(sub)))
                for u, v in itertools.combinations(members, 2):
                    if (u, v) in tree:
                        continue
                    r = {'skel': skel, 'mult': [[kind, i, 2, '']], 'rings': [[u, v, 'd', '', False, 1]]}
                    if scope_violation(build(r), max_depth, allow_ring_in_unit=True) is None:
                        yield r


def c05_branch_count_one_recipes(max_tokens, max_depth=3):
    """|1 on a flat branch"""
    for k in range(2, max_tokens + 1):
        for skel in skeleton_shapes(k, max_depth):
            for kind, i in multiplier_sites(skeleton_to_ast(skel)):
                if kind != 'branch':
                    continue
                r = {'skel': skel, 'mult': [[kind, i, 1, '']]}
                a = build(r)
                if scope_violation(a, max_depth) is None and not outer_multiplied_branch_contains_branch(a):
                    yield r


def c05_random(seed, count, min_tokens=4, max_tokens=14, max_depth=3, branch_in_unit=False, max_count=12,
               max_nodes=150):
    """random skeleton, 1..3 random multipliers (counts 2..3, sometimes up to max_count, on nodes also 1), random
    symbols at every position, annotations, up to two rings outside the multiplied units"""
    rng = random.Random(seed * 15485863 + 5)
    produced = 0
    while produced < count:
        k = rng.randint(min_tokens, max_tokens)
        ast = random_skeleton(rng, k, max_depth)
        sites = multiplier_sites(ast)
        rng.shuffle(sites)
        flat = flat_nodes(ast)
        taken = set()
        for kind, i in sites[:rng.randint(1, 3)]:
            if i in taken:
                continue
            taken.add(i)
            n = rng.choice([2, 2, 3, 3, 2, rng.randint(2, max_count)])
            if kind == 'node':
                if rng.random() < 0.1:
                    n = 1
                flat[i]['mult'] = n
            else:
                flat[i]['br'][0]['mult'] = n
                if rng.random() < 0.4:
                    flat[i]['br'][0]['inter'] = rng.choice(NONDEFAULT)
        if scope_violation(ast, max_depth) is not None:
            continue
        if not branch_in_unit and outer_multiplied_branch_contains_branch(ast):
            continue
        if denote_size(ast) > max_nodes:
            continue
        for n in flat[1:]:
            if rng.random() < 0.3:
                n['in'] = rng.choice(NONDEFAULT)
        for n in flat:
            if rng.random() < 0.2:
                ann, attrs = rng.choice(ANNOTATIONS)
                n['ann'] = ann
                n['attrs'] = dict(attrs)
        parents = []
        flat_nodes(ast, parents=parents)
        ast = add_random_rings(rng, ast, ring_pairs_outside_units(ast, parents), rng.randint(0, 2), max_depth)
        produced += 1
        yield {'ast': ast}


def denote_size(ast):
    """number of nodes of the denoted graph"""
    def size(chain):
        t = 0
        for n in chain:
            inner = sum(size(b['chain']) for b in n['br'])
            if n['mult'] is not None and len(n['br']) == 1 and n['br'][0]['mult'] is not None:
                t += n['mult'] - 1 + n['br'][0]['mult'] * (1 + inner)
            elif n['mult'] is not None:
                t += n['mult'] + inner
            elif len(n['br']) == 1 and n['br'][0]['mult'] is not None:
                t += n['br'][0]['mult'] * (1 + inner)
            else:
                t += 1 + inner
        return t
    return size(ast)


# ------------------------------------------------------------------------------------------------
# syntactic classes used by the property modules to name failure classes
# ------------------------------------------------------------------------------------------------
def outer_multiplied_branch_contains_branch(chain):
    """some multiplied branch has a branch somewhere in its content"""
    for n in chain:
        for b in n['br']:
            if b['mult'] is not None and any(m['br'] for m in flat_nodes(b['chain'])):
                return True
            if outer_multiplied_branch_contains_branch(b['chain']):
                return True
    return False


_RE_SYM_AFTER_NODE_MULT = re.compile(r'\]\|\d+[.\-=#$]')
_RE_CLOSURES_THEN_TOKEN = re.compile(r'\)(?:[.\-=#$]?\|\d+)?[.\-=#$]?\).*\[#')


def symbol_after_node_multiplier(text):
    return _RE_SYM_AFTER_NODE_MULT.search(text) is not None


def consecutive_closures_then_token(text):
    """two branch closures with no node token between them (a multiplier / symbols may sit between), and a
    node token somewhere after them"""
    return _RE_CLOSURES_THEN_TOKEN.search(text) is not None


def branch_multiplier_one(chain):
    return any(any(b['mult'] == 1 or branch_multiplier_one(b['chain']) for b in n['br']) for n in chain)


def ring_inside_multiplied_unit(chain):
    for n in chain:
        for b in n['br']:
            if b['mult'] is not None and (n['rings'] or any(True for _ in _markers_in(b['chain']))):
                return True
            if ring_inside_multiplied_unit(b['chain']):
                return True
    return False


# ------------------------------------------------------------------------------------------------
# comparing a graph returned by the code under test with (nodes, edges) from denote_lists
# ------------------------------------------------------------------------------------------------
FREE_KEYS = sorted({k for _, a in ANNOTATIONS for k in a if k not in ('charge', 'weight')})


def observed_lists(graph):
    """({key: attrs}, {(u, v): order}) of a networkx graph, u < v where the keys can be ordered"""
    nodes = {k: dict(d) for k, d in graph.nodes(data=True)}
    edges = {}
    for u, v, d in graph.edges(data=True):
        try:
            key = (min(u, v), max(u, v))
        except TypeError:
            key = (u, v)
        edges[key] = d.get('order')
    return nodes, edges


def _attr_diffs(i, exp, got, free_keys):
    out = []
    for k, v in exp.items():
        if k not in got or got[k] != v or type(got[k]) is not type(v):
            out.append(('wrong-node-attributes', 'node %r: expected %s=%r, got %r' % (i, k, v, got.get(k, '<absent>'))))
    for k in free_keys:
        if k not in exp and k in got:
            out.append(('wrong-node-attributes', 'node %r: unexpected key %s=%r' % (i, k, got[k])))
    return out


def compare_exact(exp_nodes, exp_edges, obs_nodes, obs_edges, free_keys=FREE_KEYS):
    """list of (kind, detail); empty when the observed graph is exactly the expected one (same keys 0..n-1,
    every expected attribute with the same value and type, no stray free key, same edges, same orders)"""
    out = []
    n = len(exp_nodes)
    if len(obs_nodes) != n:
        return [('wrong-node-count', 'expected %d nodes, got %d' % (n, len(obs_nodes)))]
    if set(obs_nodes) != set(range(n)):
        return [('wrong-node-keys', 'expected keys 0..%d, got %r' % (n - 1, sorted(obs_nodes, key=repr)))]
    for i, exp in enumerate(exp_nodes):
        out += _attr_diffs(i, exp, obs_nodes[i], free_keys)
    if out:
        return out
    if set(obs_edges) != set(exp_edges):
        return [('wrong-edge-set', 'missing %r, unexpected %r' % (sorted(set(exp_edges) - set(obs_edges)),
                                                                  sorted(set(obs_edges) - set(exp_edges))))]
    for e, o in exp_edges.items():
        if obs_edges[e] != o or isinstance(obs_edges[e], bool):
            out.append(('wrong-edge-order', 'edge %r: expected order %r, got %r' % (e, o, obs_edges[e])))
    return out


def isomorphic(exp_nodes, exp_edges, obs_nodes, obs_edges, free_keys=FREE_KEYS, with_orders=True):
    """isomorphism that respects fragname, charge, weight, the free annotation keys and (unless with_orders is
    False) the bond orders"""
    if len(exp_nodes) != len(obs_nodes) or len(exp_edges) != len(obs_edges):
        return False
    ge = nx.Graph()
    for i, a in enumerate(exp_nodes):
        ge.add_node(i, **a)
    for (u, v), o in exp_edges.items():
        ge.add_edge(u, v, order=o)
    go = nx.Graph()
    for k, a in obs_nodes.items():
        go.add_node(k, **a)
    for (u, v), o in obs_edges.items():
        go.add_edge(u, v, order=o)

    def nm(a, b):
        # a expected, b observed
        return not _attr_diffs(0, {k: v for k, v in a.items()}, b, free_keys)

    def em(a, b):
        return a.get('order') == b.get('order')
    return nx.is_isomorphic(ge, go, node_match=nm, edge_match=em if with_orders else None)


def fmt_edges(edges):
    return sorted([list(k) + [v] for k, v in edges.items()], key=repr)


# ------------------------------------------------------------------------------------------------
# parse: text -> AST.  NOT used by any oracle (expected values always come from ASTs the generators made);
# it exists so that `selftest()` can check render / denote / expand against the strings and expected graphs of
# the repository's own test_read_cgsmiles, and so that a replayed text can be turned back into an AST.
# ------------------------------------------------------------------------------------------------
def _parse_annotation(ann):
    """meaning of an annotation text under the coarse dialect (positional q, w; keywords q, w; other keys verbatim)"""
    attrs = {}
    pos = 0
    for entry in [e for e in ann.split(';') if e != '']:
        if '=' in entry:
            k, v = entry.split('=')
            if k == 'q':
                attrs['charge'] = float(v)
            elif k == 'w':
                attrs['weight'] = float(v)
            else:
                attrs[k] = v
        else:
            attrs[('charge', 'weight')[pos]] = float(entry)
            pos += 1
    return attrs


def parse(text):
    """recursive-descent parser for the grammar that `render` writes"""
    assert text[0] == '{' and text[-1] == '}', text
    s = text[1:-1]
    pos = [0]

    def peek(k=0):
        return s[pos[0] + k] if pos[0] + k < len(s) else ''

    def number():
        start = pos[0]
        while peek().isdigit():
            pos[0] += 1
        return int(s[start:pos[0]])

    def node(in_sym):
        assert s.startswith('[#', pos[0]), (text, pos[0])
        end = s.index(']', pos[0])
        body = s[pos[0] + 2:end]
        pos[0] = end + 1
        name, _, ann = body.partition(';')
        n = mk_node(name, ann=(';' + ann) if ann else '', attrs=_parse_annotation(ann), in_=in_sym)
        # ring markers
        while True:
            sym = peek() if peek() in NONDEFAULT and (peek(1).isdigit() or peek(1) == '%') else ''
            k = len(sym)
            if peek(k).isdigit():
                n['rings'].append([sym, peek(k)])
                pos[0] += k + 1
            elif peek(k) == '%':
                n['rings'].append([sym, s[pos[0] + k:pos[0] + k + 3]])
                pos[0] += k + 3
            else:
                break
        if peek() == '|':
            pos[0] += 1
            n['mult'] = number()
        # branches
        while True:
            sym = peek() if peek() in NONDEFAULT and peek(1) == '(' else ''
            if peek(len(sym)) != '(':
                break
            pos[0] += len(sym) + 1
            b = mk_branch(chain(sym))
            assert peek() == ')', (text, pos[0])
            pos[0] += 1
            inter = peek() if peek() in NONDEFAULT and peek(1) == '|' else ''
            if peek(len(inter)) == '|':
                pos[0] += len(inter) + 1
                b['mult'] = number()
                b['inter'] = inter
            n['br'].append(b)
        return n

    def chain(first_sym):
        out = [node(first_sym)]
        while True:
            sym = peek() if peek() in NONDEFAULT and peek(1) == '[' else ''
            if peek(len(sym)) != '[':
                break
            pos[0] += len(sym)
            out.append(node(sym))
        return out

    ast = chain('')
    assert pos[0] == len(s), (text, pos[0], s[pos[0]:])
    return ast


def selftest(test_module_path='/repo/cgsmiles/tests/test_cgsmile_parsing.py'):
    """
    Check G1 against the repository's own expectations: for each of the strings of test_read_cgsmiles that is
    inside G1's scope, render(parse(s)) == s and denote(parse(s)) has exactly the nodes, charges, edges and orders
    the test expects.  Returns (checked, skipped-as-out-of-scope, problems).
    """
    import ast as pyast
    import warnings
    src = open(test_module_path).read()
    with warnings.catch_warnings():
        warnings.simplefilter('ignore')
        tree = pyast.parse(src)
    params = None
    for fn in tree.body:
        if isinstance(fn, pyast.FunctionDef) and fn.name == 'test_read_cgsmiles':
            params = pyast.literal_eval(fn.decorator_list[0].args[1])
    checked, skipped, problems = 0, [], []
    for smile, names, charges, edges, orders in params:
        try:
            a = parse(smile)
        except Exception as e:
            skipped.append((smile, 'not parsed: %r' % (e,)))
            continue
        if render(a) != smile:
            problems.append((smile, 'render gives ' + render(a)))
            continue
        why = scope_violation(a, max_depth=5)
        if why:
            skipped.append((smile, why))
            continue
        nodes, dedges = denote_lists(a)
        checked += 1
        if has_branch_multiplier(a):
            # numbering of the copies of a multiplied branch is not fixed by the documentation: isomorphism
            obs_nodes = {i: {'fragname': nm, 'charge': 0.0, 'weight': 1.0} for i, nm in enumerate(names)}
            obs_edges = {(min(u, v), max(u, v)): o for (u, v), o in zip(edges, orders)}
            if not isomorphic(nodes, dedges, obs_nodes, obs_edges):
                problems.append((smile, 'not isomorphic to the expected graph of the test'))
            continue
        if [n['fragname'] for n in nodes] != names:
            problems.append((smile, 'names %r' % [n['fragname'] for n in nodes]))
        if charges and {i: n['charge'] for i, n in enumerate(nodes)} != charges:
            problems.append((smile, 'charges'))
        exp = {(min(u, v), max(u, v)): o for (u, v), o in zip(edges, orders)}
        if exp != dedges:
            problems.append((smile, 'edges %r expected %r' % (sorted(dedges.items()), sorted(exp.items()))))
    return checked, skipped, problems


if __name__ == '__main__':
    c, s, p = selftest()
    print('selftest: %d strings of test_read_cgsmiles agree with denote/expand, %d outside the scope, %d problems' % (c, len(s), len(p)))
    for x in s + p:
        print('  ', x)
