"""
G1 -- ASTs of the documented CGsmiles base-graph grammar (docs/source/syntax/basic_graph_description.rst,
docstring of read_cgsmiles, tests/test_cgsmile_parsing.py), with

    render(ast)  -> str             the text '{...}'
    denote(ast)  -> networkx.Graph  the graph the grammar denotes (independent of the reader)
    expand(ast)  -> ast             multipliers written out longhand
    skeletons / c04_exhaustive / c04_random / c05_exhaustive / c05_random   enumerators

AST (JSON-serialisable; a *chain* is a list of nodes, the AST is the top-level chain):

    node   = {'name': str,            node token [#name...]
              'ann': str,             annotation text placed verbatim after the name (';q=1;w=2'), '' = none
              'attrs': {key: value},  what that annotation means (charge / weight as floats, free keys as text);
                                      written by the generator that wrote 'ann', never derived by parsing it
              'in': sym,              bond symbol of the edge that attaches this node to its predecessor
                                      (previous node of the chain, or the anchor for the first node of a branch)
              'rings': [[sym, marker], ...]   ring markers after the node, marker = '3' or '%12'
              'mult': int | None,     multiplier |n on the node
              'br': [branch, ...]}    branches anchored on this node, in textual order
    branch = {'chain': chain, 'mult': int | None, 'inter': sym}
             'mult' is the multiplier after the closing parenthesis; 'inter' the symbol between ')' and '|'
             (bond order between consecutive copies of anchor+branch; only meaningful with 'mult')
    sym    in ('', '.', '-', '=', '#', '$')   ('' = no symbol = order 1; '-' = explicit order 1)

Where a symbol is rendered (the five documented positions):
    between two nodes        [#A]=[#B]
    before a ring marker     [#A]=1  (the symbol of the ring bond sits at the OPENING marker; the closing marker
                             carries either nothing or the same symbol -- a symbol at the closing marker only is
                             not documented and never generated)
    before a branch          [#A]=([#B]...)   ('in' of the first node of a branch is written before '(')
    after a branch           [#A]([#B])=[#C]  ('in' of the node that follows the branches of its predecessor);
                             between two branches [#A]([#B])=([#C]) it is at the same time 'after a branch' and
                             'before a branch' and refers to A-C under both readings
    around a multiplier      [#A]|3=[#B]  and  [#A]([#B])$|3.[#C]   (tests 19-22 of test_read_cgsmiles: the symbol
                             between ')' and '|' is the bond between consecutive copies of the anchor, the symbol
                             after |n is the bond from the LAST copy to what follows, the symbol before '(' is
                             the anchor-branch bond in every copy)

Scope decisions (DESIGN section 6, C04/C05) enforced by `scope_violation(ast)`:
    * ring markers are one digit or '%' + two digits; on a node all single-digit markers come before all %nn
      markers (a %nn marker directly followed by a digit marker is read as one three-digit id by the reader and
      as two markers by OpenSMILES; the docs promise neither);
    * a node never carries the same ring id twice; ring bonds never duplicate an edge or form a self loop
      (that is C20's fault class); every ring is closed;
    * multiplied nodes carry no ring markers (there is no documented position for them next to |n);
    * a multiplied branch is the only branch of its anchor (the docs do not say what is repeated otherwise),
      its anchor has no multiplier of its own, and neither the anchor nor the branch content carries ring
      markers -- except when `allow_ring_in_unit` is set, then rings that open AND close inside one unit are
      allowed (the longhand is then unambiguous: every copy has its own ring);
    * no whitespace, no '+', nothing after a '(' but a node token.
"""
import functools
import itertools
import random

import networkx as nx

SYMBOLS = ('', '.', '-', '=', '#', '$')
NONDEFAULT = ('.', '-', '=', '#', '$')
ORDER = {'': 1, '.': 0, '-': 1, '=': 2, '#': 3, '$': 4}
NAMES = ['A', 'B', 'C', 'D', 'E', 'F', 'G', 'H', 'I', 'J', 'K', 'L', 'M', 'N', 'O', 'P']
DEFAULT_ATTRS = {'charge': 0.0, 'weight': 1.0}

# (annotation text, meaning).  Written by hand: the meaning is what the syntax documentation says
# (q -> charge, w -> weight, both floats, positional order q then w, other keys verbatim text).
ANNOTATIONS = [
    (';q=1', {'charge': 1.0}),
    (';+1', {'charge': 1.0}),
    (';-0.25', {'charge': -0.25}),
    (';w=0.5', {'weight': 0.5}),
    (';0;0.5', {'charge': 0.0, 'weight': 0.5}),
    (';1e-1;w=2', {'charge': 0.1, 'weight': 2.0}),
    (';w=2;q=-1', {'charge': -1.0, 'weight': 2.0}),
    (';mass=72', {'mass': '72'}),
    (';q=1;mass=72', {'charge': 1.0, 'mass': '72'}),
    (';r=abc;w=3', {'weight': 3.0, 'r': 'abc'}),
]


# ------------------------------------------------------------------------------------------------
# constructors
# ------------------------------------------------------------------------------------------------
def mk_node(name, ann='', attrs=None, in_='', rings=(), mult=None, br=()):
    return {'name': name, 'ann': ann, 'attrs': dict(attrs or {}), 'in': in_,
            'rings': [list(r) for r in rings], 'mult': mult, 'br': list(br)}


def mk_branch(chain, mult=None, inter=''):
    return {'chain': list(chain), 'mult': mult, 'inter': inter}


def copy_ast(chain):
    return [{'name': n['name'], 'ann': n['ann'], 'attrs': dict(n['attrs']), 'in': n['in'],
             'rings': [list(r) for r in n['rings']], 'mult': n['mult'],
             'br': [{'chain': copy_ast(b['chain']), 'mult': b['mult'], 'inter': b['inter']} for b in n['br']]}
            for n in chain]


def ring_id(marker):
    return int(marker[1:]) if marker.startswith('%') else int(marker)


def flat_nodes(chain, out=None, parents=None, parent=None, depth=0, depths=None):
    """Node dicts in order of appearance (pre-order); optionally the tree parent of each (index or None)."""
    if out is None:
        out = []
    prev = parent
    for n in chain:
        idx = len(out)
        out.append(n)
        if parents is not None:
            parents.append(prev)
        if depths is not None:
            depths.append(depth)
        for b in n['br']:
            flat_nodes(b['chain'], out, parents, idx, depth + 1, depths)
        prev = idx
    return out


# ------------------------------------------------------------------------------------------------
# render
# ------------------------------------------------------------------------------------------------
def _render_chain(chain, parts):
    for i, n in enumerate(chain):
        if i > 0:
            parts.append(n['in'])
        parts.append('[#' + n['name'] + n['ann'] + ']')
        for sym, marker in n['rings']:
            parts.append(sym + marker)
        if n['mult'] is not None:
            parts.append('|%d' % n['mult'])
        for b in n['br']:
            parts.append(b['chain'][0]['in'] + '(')
            _render_chain(b['chain'], parts)
            parts.append(')')
            if b['mult'] is not None:
                parts.append(b['inter'] + '|%d' % b['mult'])


def render(ast):
    """The CGsmiles text of the AST, including the enclosing braces."""
    parts = ['{']
    _render_chain(ast, parts)
    parts.append('}')
    return ''.join(parts)


# ------------------------------------------------------------------------------------------------
# expand (multipliers -> longhand)
# ------------------------------------------------------------------------------------------------
def has_multiplier(chain):
    return any(n['mult'] is not None or any(b['mult'] is not None or has_multiplier(b['chain']) for b in n['br'])
               for n in chain)


def has_branch_multiplier(chain):
    return any(any(b['mult'] is not None or has_branch_multiplier(b['chain']) for b in n['br']) for n in chain)


def expand(ast):
    """
    Longhand AST: `[#A]|n` becomes n nodes A in a row (the first keeps the incoming symbol, the others are
    bonded with the default order, the last one keeps the branches); `[#A](...)x|n` becomes n copies of
    anchor+branch in a row, the first keeps the anchor's incoming symbol, copy i+1 is attached to the anchor of
    copy i with the symbol x.  What follows in the chain attaches to the last copy (that is simply the next
    element of the chain).
    """
    out = []
    for n in ast:
        brs = [{'chain': expand(b['chain']), 'mult': b['mult'], 'inter': b['inter']} for b in n['br']]
        base = {'name': n['name'], 'ann': n['ann'], 'attrs': dict(n['attrs']), 'in': n['in'],
                'rings': [list(r) for r in n['rings']], 'mult': None, 'br': []}
        if n['mult'] is not None:
            for i in range(n['mult']):
                c = copy_ast([base])[0]
                if i > 0:
                    c['in'] = ''
                out.append(c)
            # branches belong to the last copy
            if n['mult'] >= 1:
                out[-1]['br'] = [{'chain': b['chain'], 'mult': None, 'inter': ''} for b in brs]
            continue
        if len(brs) == 1 and brs[0]['mult'] is not None:
            b = brs[0]
            for i in range(b['mult']):
                c = copy_ast([base])[0]
                if i > 0:
                    c['in'] = b['inter']
                c['br'] = [{'chain': copy_ast(b['chain']), 'mult': None, 'inter': ''}]
                out.append(c)
            continue
        base['br'] = [{'chain': b['chain'], 'mult': None, 'inter': ''} for b in brs]
        out.append(base)
    return out


# ------------------------------------------------------------------------------------------------
# denote
# ------------------------------------------------------------------------------------------------
class NotInGrammar(ValueError):
    pass


def node_attrs(n):
    a = {'fragname': n['name']}
    a.update(DEFAULT_ATTRS)
    a.update(n['attrs'])
    return a


def denote_lists(ast):
    """
    (nodes, edges) of the denoted graph: nodes = [attrs dict, ...] (index = node key = order of appearance),
    edges = {(u, v): order} with u < v.  Raises NotInGrammar for a dangling ring, a duplicate edge or a loop.
    Multipliers are expanded first.
    """
    if has_multiplier(ast):
        ast = expand(ast)
    nodes = []
    edges = {}
    open_rings = {}

    def add_edge(u, v, order):
        if u == v or (u, v) in edges:
            raise NotInGrammar('duplicate edge or self loop %d-%d' % (u, v))
        edges[(u, v)] = order

    def walk(chain, anchor):
        prev = anchor
        for n in chain:
            idx = len(nodes)
            nodes.append(node_attrs(n))
            if prev is not None:
                add_edge(prev, idx, ORDER[n['in']])
            for sym, marker in n['rings']:
                rid = ring_id(marker)
                if rid in open_rings:
                    start, osym = open_rings.pop(rid)
                    if sym not in ('', osym):
                        raise NotInGrammar('closing symbol differs from opening symbol')
                    add_edge(start, idx, ORDER[osym])
                else:
                    open_rings[rid] = (idx, sym)
            for b in n['br']:
                walk(b['chain'], idx)
            prev = idx

    walk(ast, None)
    if open_rings:
        raise NotInGrammar('dangling ring')
    return nodes, edges


def denote(ast):
    """Expected graph: node keys 0.. in order of appearance, attributes fragname/charge/weight/free keys,
    edges with attribute `order`."""
    nodes, edges = denote_lists(ast)
    g = nx.Graph()
    for i, a in enumerate(nodes):
        g.add_node(i, **a)
    for (u, v), o in edges.items():
        g.add_edge(u, v, order=o)
    return g


# ------------------------------------------------------------------------------------------------
# scope
# ------------------------------------------------------------------------------------------------
def _markers_in(chain):
    for n in chain:
        for r in n['rings']:
            yield r
        for b in n['br']:
            yield from _markers_in(b['chain'])


def _unit_rings_closed(anchor):
    """every ring id on the anchor / inside its branch is opened and closed inside that unit, ids not reused"""
    count = {}
    for sym, marker in list(anchor['rings']) + list(_markers_in(anchor['br'][0]['chain'])):
        count[ring_id(marker)] = count.get(ring_id(marker), 0) + 1
    return all(c == 2 for c in count.values())


def scope_violation(ast, max_depth=3, allow_ring_in_unit=False, _depth=0):
    """None if the AST is inside the documented grammar and the scope decisions, else a reason."""
    for i, n in enumerate(ast):
        if _depth == 0 and i == 0 and n['in'] != '':
            return 'symbol before the first node'
        seen = set()
        pct = False
        for sym, marker in n['rings']:
            if marker.startswith('%'):
                if len(marker) != 3:
                    return 'ring marker form'
                pct = True
            else:
                if len(marker) != 1:
                    return 'ring marker form'
                if pct:
                    return '%nn marker before a digit marker'
            rid = ring_id(marker)
            if rid in seen:
                return 'same ring id twice on one node'
            seen.add(rid)
        if n['mult'] is not None:
            if n['rings']:
                return 'ring marker on a multiplied node'
            if n['mult'] < 1:
                return 'multiplier < 1'
        for b in n['br']:
            if _depth + 1 > max_depth:
                return 'nesting deeper than the bound'
            if not b['chain']:
                return 'empty branch'
            if b['mult'] is None and b['inter'] != '':
                return 'inter symbol without multiplier'
            if b['mult'] is not None:
                if len(n['br']) != 1:
                    return 'multiplied branch on an anchor with several branches'
                if n['mult'] is not None:
                    return 'multiplied anchor of a multiplied branch'
                if b['mult'] < 1:
                    return 'multiplier < 1'
                if n['rings'] or any(True for _ in _markers_in(b['chain'])):
                    if not allow_ring_in_unit or not _unit_rings_closed(n):
                        return 'ring marker inside a multiplied unit'
            r = scope_violation(b['chain'], max_depth, allow_ring_in_unit, _depth + 1)
            if r:
                return r
    if _depth == 0:
        try:
            denote_lists(ast)
        except NotInGrammar as e:
            return str(e)
    return None


# ------------------------------------------------------------------------------------------------
# features (for the non-triviality rules of the property modules)
# ------------------------------------------------------------------------------------------------
def features(ast):
    f = {'branch': 0, 'nested': 0, 'ring': 0, 'pct_ring': 0, 'symbol': 0, 'annotation': 0,
         'node_mult': 0, 'branch_mult': 0, 'tokens': 0}

    def walk(chain, depth, top):
        for i, n in enumerate(chain):
            f['tokens'] += 1
            if n['in'] and not (top and i == 0):
                f['symbol'] += 1
            for sym, marker in n['rings']:
                f['ring'] += 1
                if marker.startswith('%'):
                    f['pct_ring'] += 1
                if sym:
                    f['symbol'] += 1
            if n['ann']:
                f['annotation'] += 1
            if n['mult'] is not None:
                f['node_mult'] += 1
            for b in n['br']:
                f['branch'] += 1
                if depth >= 1:
                    f['nested'] += 1
                if b['mult'] is not None:
                    f['branch_mult'] += 1
                    if b['inter']:
                        f['symbol'] += 1
                walk(b['chain'], depth + 1, False)
    walk(ast, 0, True)
    return f


# ------------------------------------------------------------------------------------------------
# skeletons: every arrangement of k node tokens into chains and branches
# ------------------------------------------------------------------------------------------------
@functools.lru_cache(maxsize=None)
def _chains(k, depth_left, max_branches):
    """chains with exactly k node tokens; chain = tuple of nodes, node = tuple of branches, branch = chain"""
    res = []
    for j in range(0, k):
        for brs in _branch_seqs(j, depth_left, max_branches):
            rest = k - 1 - j
            if rest == 0:
                res.append((brs,))
            else:
                for tail in _chains(rest, depth_left, max_branches):
                    res.append((brs,) + tail)
    return tuple(res)


@functools.lru_cache(maxsize=None)
def _branch_seqs(j, depth_left, max_branches):
    if j == 0:
        return ((),)
    if depth_left == 0 or max_branches == 0:
        return ()
    res = []
    for s in range(1, j + 1):
        for c in _chains(s, depth_left - 1, 3):
            for rest in _branch_seqs(j - s, depth_left, max_branches - 1):
                res.append((c,) + rest)
    return tuple(res)


def _instantiate(skel, counter):
    chain = []
    for brs in skel:
        n = mk_node(NAMES[counter[0] % len(NAMES)] + ('' if counter[0] < len(NAMES) else str(counter[0] // len(NAMES))))
        counter[0] += 1
        chain.append(n)
        for b in brs:
            n['br'].append(mk_branch(_instantiate(b, counter)))
    return chain


def skeletons(k, max_depth=3, max_branches=3):
    """All ASTs with exactly k node tokens, no decoration, names A, B, C ... in order of appearance."""
    for skel in _chains(k, max_depth, max_branches):
        yield _instantiate(skel, [0])


# ------------------------------------------------------------------------------------------------
# decoration helpers
# ------------------------------------------------------------------------------------------------
def symbol_assignments(n_positions, max_nondefault, symbols=NONDEFAULT):
    """tuples of symbols for n positions with at most max_nondefault entries different from ''"""
    base = [''] * n_positions
    yield tuple(base)
    for r in range(1, min(max_nondefault, n_positions) + 1):
        for pos in itertools.combinations(range(n_positions), r):
            for syms in itertools.product(symbols, repeat=r):
                t = base[:]
                for p, s in zip(pos, syms):
                    t[p] = s
                yield tuple(t)


RING_SPELLINGS = {
    # name: (opening marker, closing marker) for ring number i (1-based)
    'd': lambda i: (str(i), str(i)),
    'p': lambda i: ('%1' + str(i), '%1' + str(i)),
    'dp': lambda i: (str(i), '%0' + str(i)),
    'pd': lambda i: ('%0' + str(i), str(i)),
}


def _sorted_rings(rings):
    """digit markers before %nn markers, otherwise keep the order"""
    return [r for r in rings if not r[1].startswith('%')] + [r for r in rings if r[1].startswith('%')]


def ring_pair_sets(n_nodes, parents, max_rings):
    """sets of up to max_rings distinct node pairs (u < v) that are not tree edges"""
    tree = {(p, i) for i, p in enumerate(parents) if p is not None}
    pairs = [(u, v) for u in range(n_nodes) for v in range(u + 1, n_nodes) if (u, v) not in tree]
    yield ()
    for r in range(1, max_rings + 1):
        for combo in itertools.combinations(pairs, r):
            yield combo


def place_rings(ast, pairs, spellings, syms, closing_too, reuse_id=False):
    """
    Return a copy of `ast` with one ring per pair.  spellings[i] in RING_SPELLINGS, syms[i] the ring bond
    symbol (written at the opening marker, and also at the closing marker when closing_too[i]).
    With reuse_id every ring gets id 1 (only legal when the rings do not overlap).
    """
    ast = copy_ast(ast)
    flat = flat_nodes(ast)
    for i, (u, v) in enumerate(pairs):
        k = 1 if reuse_id else i + 1
        om, cm = RING_SPELLINGS[spellings[i]](k)
        flat[u]['rings'].append([syms[i], om])
        flat[v]['rings'].append([syms[i] if closing_too[i] else '', cm])
    for n in flat:
        n['rings'] = _sorted_rings(n['rings'])
    return ast


def set_in_symbols(ast, syms):
    """copy of ast with the incoming symbols of nodes 1.. (order of appearance) set from syms"""
    ast = copy_ast(ast)
    flat = flat_nodes(ast)
    for n, s in zip(flat[1:], syms):
        n['in'] = s
    return ast


# ------------------------------------------------------------------------------------------------
# C04 enumerators (no multipliers)
# ------------------------------------------------------------------------------------------------
def c04_exhaustive(max_tokens, max_depth=3, max_rings=2, max_nondefault=2, spellings=('d', 'p', 'dp', 'pd'),
                   ring_tokens_limit=None, min_tokens=1):
    """
    Every skeleton with min_tokens..max_tokens node tokens x every set of <= max_rings ring bonds (between nodes
    that are not already bonded) x ring spellings x every assignment of bond symbols to the positions (one per
    tree edge, one per ring bond) with at most max_nondefault symbols.  Rings are only placed on skeletons with
    at most ring_tokens_limit tokens (None = no limit).  Two rings take the spellings pairwise equal or
    (digit, %nn); the non-overlapping case additionally reuses ring id 1.  A ring symbol is written at the
    opening marker; with a non-default symbol the variant 'same symbol at both markers' is added.
    """
    for k in range(min_tokens, max_tokens + 1):
        for skel in skeletons(k, max_depth):
            parents = []
            flat_nodes(skel, parents=parents)
            n_edges = k - 1
            rings_ok = ring_tokens_limit is None or k <= ring_tokens_limit
            for pairs in ring_pair_sets(k, parents, max_rings if rings_ok else 0):
                nr = len(pairs)
                if nr == 0:
                    spell_opts = [()]
                elif nr == 1:
                    spell_opts = [(s,) for s in spellings]
                else:
                    spell_opts = [('d',) * nr, ('p',) * nr, ('d', 'p') + ('d',) * (nr - 2),
                                  ('p', 'd') + ('d',) * (nr - 2), ('dp', 'pd') + ('d',) * (nr - 2)]
                reuse_opts = [False]
                if nr == 2 and pairs[0][1] < pairs[1][0]:
                    reuse_opts = [False, True]
                for assign in symbol_assignments(n_edges + nr, max_nondefault):
                    base = set_in_symbols(skel, assign[:n_edges])
                    rsyms = assign[n_edges:]
                    close_opts = [tuple(False for _ in rsyms)]
                    if any(rsyms):
                        close_opts.append(tuple(bool(s) for s in rsyms))
                    for sp in spell_opts:
                        for reuse in reuse_opts:
                            if reuse and sp not in (('d', 'd'), ('p', 'p')):
                                continue
                            for cl in close_opts:
                                ast = place_rings(base, pairs, sp, rsyms, cl, reuse) if nr else base
                                if scope_violation(ast, max_depth) is None:
                                    yield ast


def c04_annotated(max_tokens, max_depth=3):
    """Every skeleton x every single node x every annotation of ANNOTATIONS, plus one ring / one symbol after it
    (the annotation must not disturb the scanning of what follows the node)."""
    for k in range(1, max_tokens + 1):
        for skel in skeletons(k, max_depth):
            for pos in range(k):
                for ann, attrs in ANNOTATIONS:
                    ast = copy_ast(skel)
                    flat = flat_nodes(ast)
                    flat[pos]['ann'] = ann
                    flat[pos]['attrs'] = dict(attrs)
                    yield ast
                    if pos + 1 < k:
                        a2 = copy_ast(ast)
                        flat_nodes(a2)[pos + 1]['in'] = '='
                        yield a2
                    if pos + 2 < k:
                        a3 = copy_ast(ast)
                        f3 = flat_nodes(a3)
                        f3[pos]['rings'].append(['#', '1'])
                        f3[k - 1]['rings'].append(['', '1'])
                        if scope_violation(a3, max_depth) is None:
                            yield a3


def random_skeleton(rng, n_tokens, max_depth=3, p_branch=0.35):
    """random arrangement of n_tokens node tokens"""
    counter = [0]

    def chain(budget, depth):
        # returns a chain using exactly `budget` tokens
        out = []
        while budget > 0:
            n = mk_node(NAMES[counter[0] % len(NAMES)] + ('' if counter[0] < len(NAMES) else str(counter[0] // len(NAMES))))
            counter[0] += 1
            budget -= 1
            out.append(n)
            while budget > 0 and depth < max_depth and len(n['br']) < 3 and rng.random() < p_branch:
                size = rng.randint(1, max(1, min(budget, 4)))
                n['br'].append(mk_branch(chain(size, depth + 1)))
                budget -= size
        return out
    return chain(n_tokens, 0)


def decorate_random(rng, ast, max_depth=3, p_sym=0.3, p_ann=0.25, max_rings=3, max_open=3, tries=20):
    """random symbols, annotations and rings (no multipliers); result is always inside the scope"""
    ast = copy_ast(ast)
    parents = []
    flat = flat_nodes(ast, parents=parents)
    for n in flat[1:]:
        if rng.random() < p_sym:
            n['in'] = rng.choice(NONDEFAULT)
    for n in flat:
        if rng.random() < p_ann:
            ann, attrs = rng.choice(ANNOTATIONS)
            n['ann'] = ann
            n['attrs'] = dict(attrs)
    k = len(flat)
    tree = {(p, i) for i, p in enumerate(parents) if p is not None}
    want = rng.randint(0, max_rings)
    used_pairs = set()
    next_id = [1]
    for _ in range(want):
        for _try in range(tries):
            if k < 3:
                break
            u, v = sorted(rng.sample(range(k), 2))
            if (u, v) in tree or (u, v) in used_pairs:
                continue
            trial = copy_ast(ast)
            tf = flat_nodes(trial)
            rid = next_id[0]
            form = rng.choice(['d', 'd', 'p', 'dp', 'pd'])
            if rid > 9 and form != 'p':
                form = 'p'
            if form == 'p':
                om = cm = '%' + ('%02d' % (10 + rid))
            else:
                om, cm = RING_SPELLINGS[form](rid)
            sym = rng.choice(NONDEFAULT) if rng.random() < p_sym else ''
            both = bool(sym) and rng.random() < 0.3
            tf[u]['rings'].append([sym, om])
            tf[v]['rings'].append([sym if both else '', cm])
            for n in (tf[u], tf[v]):
                rng.shuffle(n['rings'])
                n['rings'] = _sorted_rings(n['rings'])
            if scope_violation(trial, max_depth) is None and _max_open(trial) <= max_open:
                ast = trial
                used_pairs.add((u, v))
                next_id[0] += 1
                break
    return ast


def _max_open(ast):
    open_now = set()
    best = 0
    for n in flat_nodes(ast):
        for sym, marker in n['rings']:
            rid = ring_id(marker)
            if rid in open_now:
                open_now.discard(rid)
            else:
                open_now.add(rid)
                best = max(best, len(open_now))
    return best


def c04_random(seed, count, min_tokens=5, max_tokens=14, max_depth=3):
    rng = random.Random(seed * 104729 + 4)
    for _ in range(count):
        k = rng.randint(min_tokens, max_tokens)
        yield decorate_random(rng, random_skeleton(rng, k, max_depth), max_depth)


# ------------------------------------------------------------------------------------------------
# C05 enumerators (multipliers)
# ------------------------------------------------------------------------------------------------
def multiplier_sites(ast):
    """
    ('node', i) for every node i (order of appearance) that may take |n, ('branch', i) for every node i whose
    single branch may take |n -- rings are looked at later by scope_violation.
    """
    sites = []
    for i, n in enumerate(flat_nodes(ast)):
        sites.append(('node', i))
        if len(n['br']) == 1:
            sites.append(('branch', i))
    return sites


def apply_multipliers(ast, choice):
    """choice = [(kind, node index, n, inter symbol)], returns a decorated copy"""
    ast = copy_ast(ast)
    flat = flat_nodes(ast)
    for kind, i, n, inter in choice:
        if kind == 'node':
            flat[i]['mult'] = n
        else:
            flat[i]['br'][0]['mult'] = n
            flat[i]['br'][0]['inter'] = inter
    return ast


def c05_exhaustive(max_tokens, max_depth=3, max_mults=2, counts=(2, 3), max_nondefault=2, min_tokens=1,
                   symbols=NONDEFAULT, with_ring=True):
    """
    Every skeleton with <= max_tokens node tokens x every choice of 1..max_mults multiplier sites (nodes and
    single branches; anchor-with-multiplier + multiplied branch excluded) x counts x every assignment of bond
    symbols to the positions (incoming symbol of every node but the first, the 'inter' symbol of every
    multiplied branch) with at most max_nondefault symbols.  With `with_ring` one ring bond between two
    nodes outside every multiplied unit is added as an extra variant (symbol-free assignments only).
    """
    for k in range(min_tokens, max_tokens + 1):
        for skel in skeletons(k, max_depth):
            sites = multiplier_sites(skel)
            parents = []
            flat_nodes(skel, parents=parents)
            for r in range(1, max_mults + 1):
                for chosen in itertools.combinations(sites, r):
                    for ns in itertools.product(counts, repeat=r):
                        n_inter = sum(1 for kind, _ in chosen if kind == 'branch')
                        probe = apply_multipliers(skel, [(kind, i, n, '') for (kind, i), n in zip(chosen, ns)])
                        if scope_violation(probe, max_depth) is not None:
                            continue
                        for assign in symbol_assignments(k - 1 + n_inter, max_nondefault, symbols):
                            inter = iter(assign[k - 1:])
                            ast = apply_multipliers(set_in_symbols(skel, assign[:k - 1]),
                                                    [(kind, i, n, next(inter) if kind == 'branch' else '')
                                                     for (kind, i), n in zip(chosen, ns)])
                            yield ast
                        if with_ring:
                            for (u, v) in ring_pairs_outside_units(probe, parents):
                                for sym in ('', '='):
                                    a = copy_ast(probe)
                                    f = flat_nodes(a)
                                    f[u]['rings'].append([sym, '1'])
                                    f[v]['rings'].append(['', '1'])
                                    if scope_violation(a, max_depth) is None:
                                        yield a


def _unit_members(ast):
    """indices (order of appearance in the shorthand AST) of nodes that are inside some multiplied unit"""
    inside = set()
    counter = [0]

    def walk(chain, in_unit):
        for n in chain:
            idx = counter[0]
            counter[0] += 1
            unit_here = in_unit or n['mult'] is not None or any(b['mult'] is not None for b in n['br'])
            if unit_here:
                inside.add(idx)
            for b in n['br']:
                walk(b['chain'], in_unit or b['mult'] is not None)
    walk(ast, False)
    return inside


def ring_pairs_outside_units(ast, parents):
    inside = _unit_members(ast)
    k = len(parents)
    tree = {(p, i) for i, p in enumerate(parents) if p is not None}
    return [(u, v) for u in range(k) for v in range(u + 1, k)
            if u not in inside and v not in inside and (u, v) not in tree]


def c05_annotated(max_tokens, max_depth=3):
    """one multiplier, and an annotation on a node inside the multiplied unit (every copy must carry it)"""
    anns = [ANNOTATIONS[0], ANNOTATIONS[4], ANNOTATIONS[8]]
    for k in range(1, max_tokens + 1):
        for skel in skeletons(k, max_depth):
            for kind, i in multiplier_sites(skel):
                probe = apply_multipliers(skel, [(kind, i, 2, '')])
                if scope_violation(probe, max_depth) is not None:
                    continue
                members = sorted(_unit_members(probe))
                for m in members:
                    for ann, attrs in anns:
                        a = copy_ast(probe)
                        f = flat_nodes(a)
                        f[m]['ann'] = ann
                        f[m]['attrs'] = dict(attrs)
                        yield a


def c05_ring_in_unit(max_tokens, max_depth=3):
    """a multiplied branch whose unit (anchor + branch) contains a ring that opens and closes inside the unit"""
    for k in range(3, max_tokens + 1):
        for skel in skeletons(k, max_depth):
            parents = []
            flat_nodes(skel, parents=parents)
            tree = {(p, i) for i, p in enumerate(parents) if p is not None}
            for kind, i in multiplier_sites(skel):
                if kind != 'branch':
                    continue
                probe = apply_multipliers(skel, [(kind, i, 2, '')])
                if scope_violation(probe, max_depth) is not None:
                    continue
                # members of this unit: the anchor and everything in its branch
                sub = flat_nodes(flat_nodes(probe)[i]['br'][0]['chain'])
                members = [i] + [i + 1 + j for j in range(len(sub))]
                for u, v in itertools.combinations(members, 2):
                    if (u, v) in tree:
                        continue
                    a = copy_ast(probe)
                    f = flat_nodes(a)
                    f[u]['rings'].append(['', '1'])
                    f[v]['rings'].append(['', '1'])
                    if scope_violation(a, max_depth, allow_ring_in_unit=True) is None:
                        yield a


def c05_random(seed, count, min_tokens=4, max_tokens=14, max_depth=3, allow_branch_in_unit=True, max_count=12):
    """random skeleton, random decoration, 1..3 random multipliers (counts 1..3, sometimes up to max_count)"""
    rng = random.Random(seed * 15485863 + 5)
    produced = 0
    while produced < count:
        k = rng.randint(min_tokens, max_tokens)
        skel = random_skeleton(rng, k, max_depth)
        sites = multiplier_sites(skel)
        rng.shuffle(sites)
        choice = []
        taken = set()
        for kind, i in sites[:rng.randint(1, 3)]:
            if i in taken:
                continue
            taken.add(i)
            n = rng.choice([2, 2, 3, 3, 2, rng.randint(2, max_count)])
            choice.append((kind, i, n, rng.choice(NONDEFAULT) if (kind == 'branch' and rng.random() < 0.4) else ''))
        ast = apply_multipliers(skel, choice)
        if scope_violation(ast, max_depth) is not None:
            continue
        if not allow_branch_in_unit and outer_multiplied_branch_contains_branch(ast):
            continue
        flat = flat_nodes(ast)
        for n in flat[1:]:
            if rng.random() < 0.3:
                n['in'] = rng.choice(NONDEFAULT)
        for n in flat:
            if rng.random() < 0.2:
                ann, attrs = rng.choice(ANNOTATIONS)
                n['ann'] = ann
                n['attrs'] = dict(attrs)
        # one or two rings between nodes outside every unit
        parents = []
        flat_nodes(ast, parents=parents)
        pairs = ring_pairs_outside_units(ast, parents)
        rng.shuffle(pairs)
        rid = 1
        for (u, v) in pairs[:rng.randint(0, 2)]:
            trial = copy_ast(ast)
            tf = flat_nodes(trial)
            form = rng.choice(['d', 'p', 'dp', 'pd'])
            om, cm = RING_SPELLINGS[form](rid)
            sym = rng.choice(NONDEFAULT) if rng.random() < 0.3 else ''
            tf[u]['rings'].append([sym, om])
            tf[v]['rings'].append(['', cm])
            tf[u]['rings'] = _sorted_rings(tf[u]['rings'])
            tf[v]['rings'] = _sorted_rings(tf[v]['rings'])
            if scope_violation(trial, max_depth) is None:
                ast = trial
                rid += 1
        if denote_size(ast) > 120:
            continue
        produced += 1
        yield ast


def denote_size(ast):
    def size(chain):
        t = 0
        for n in chain:
            inner = sum(size(b['chain']) for b in n['br'])
            if n['mult'] is not None:
                t += n['mult'] + inner
            elif len(n['br']) == 1 and n['br'][0]['mult'] is not None:
                t += n['br'][0]['mult'] * (1 + inner)
            else:
                t += 1 + inner
        return t
    return size(ast)


# ------------------------------------------------------------------------------------------------
# syntactic classes used by the property modules to name failure classes
# ------------------------------------------------------------------------------------------------
def outer_multiplied_branch_contains_branch(chain):
    """some multiplied branch has a branch somewhere in its content"""
    for n in chain:
        for b in n['br']:
            if b['mult'] is not None and any(m['br'] for m in flat_nodes(b['chain'])):
                return True
            if outer_multiplied_branch_contains_branch(b['chain']):
                return True
    return False


def symbol_after_node_multiplier(text):
    import re
    return re.search(r'\]\|\d+[.\-=#$]', text) is not None


def consecutive_closures_then_token(text):
    """two branch closures with no node token between them (multipliers / symbols may sit between), and a node
    token somewhere after them"""
    import re
    return re.search(r'\)(?:[.\-=#$]?\|\d+)?[.\-=#$]?\).*\[#', text) is not None


def branch_multiplier_one(chain):
    return any(any(b['mult'] == 1 or branch_multiplier_one(b['chain']) for b in n['br']) for n in chain)
