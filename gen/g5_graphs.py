"""
G5 — graph families: all connected unlabelled graphs up to N nodes (networkx graph atlas), every
assignment of bond orders 0..4 to the edges when the graph has <= FULL_EDGES edges (seeded sample
otherwise), node relabelings (identity, reversal, seeded permutations, gapped keys), node names
distinct or repeated.  Exhaustive parts do not depend on the seed.
"""
import itertools
import random
import networkx as nx

ORDERS = (0, 1, 2, 3, 4)
NAMES = ['A', 'B', 'C', 'D', 'E', 'F', 'G', 'H']


def connected_graphs(max_nodes, min_nodes=1):
    out = []
    for g in nx.graph_atlas_g():
        n = g.number_of_nodes()
        if n < min_nodes or n == 0:
            continue
        if n > max_nodes:
            break
        if nx.is_connected(g):
            out.append(g)
    return out


def order_assignments(n_edges, full_edges, rng, n_samples):
    if n_edges <= full_edges:
        yield from itertools.product(ORDERS, repeat=n_edges)
    else:
        # always include the uniform ones and some with exactly one special edge
        seen = set()
        for o in ORDERS:
            t = (o,) * n_edges
            seen.add(t)
            yield t
        for i in range(n_edges):
            for o in (0, 2, 3, 4):
                t = tuple(o if j == i else 1 for j in range(n_edges))
                if t not in seen:
                    seen.add(t)
                    yield t
        for _ in range(n_samples):
            t = tuple(rng.choice(ORDERS) for _ in range(n_edges))
            if t not in seen:
                seen.add(t)
                yield t


def relabelings(n, rng, n_perm):
    ident = list(range(n))
    yield ident
    if n > 1:
        yield ident[::-1]
    seen = {tuple(ident), tuple(ident[::-1])}
    for _ in range(n_perm):
        p = ident[:]
        rng.shuffle(p)
        if tuple(p) not in seen:
            seen.add(tuple(p))
            yield p
    if n > 1:
        yield [3 * i + 2 for i in range(n)]   # gapped keys


def graph_cases(max_nodes, full_edges, seed, n_samples=40, n_perm=2, repeated_names=True, min_nodes=1):
    """Yield {'nodes': [[key, name]...], 'edges': [[u, v, order]...]}."""
    rng = random.Random(seed)
    for g in connected_graphs(max_nodes, min_nodes):
        n = g.number_of_nodes()
        edges = list(g.edges)
        for orders in order_assignments(len(edges), full_edges, rng, n_samples):
            for k, lab in enumerate(relabelings(n, rng, n_perm)):
                name_sets = [NAMES[:n]]
                if repeated_names and k == 0 and n > 1:
                    name_sets.append(['A'] * n)
                for names in name_sets:
                    yield {'nodes': [[lab[i], names[i]] for i in range(n)],
                           'edges': [[lab[u], lab[v], o] for (u, v), o in zip(edges, orders)]}


def random_graph_cases(seed, count, min_nodes=6, max_nodes=12):
    rng = random.Random(seed * 7919 + 13)
    for _ in range(count):
        n = rng.randint(min_nodes, max_nodes)
        t = nx.random_labeled_tree(n, seed=rng.randint(0, 10 ** 9)) if hasattr(nx, 'random_labeled_tree') \
            else nx.random_tree(n, seed=rng.randint(0, 10 ** 9))
        extra = rng.randint(0, 3)
        nodes = list(t.nodes)
        for _ in range(extra):
            u, v = rng.sample(nodes, 2)
            t.add_edge(u, v)
        lab = nodes[:]
        rng.shuffle(lab)
        yield {'nodes': [[lab[i], rng.choice(NAMES[:4])] for i in range(n)],
               'edges': [[lab[u], lab[v], rng.choice((1, 1, 1, 2, 0, 3, 4))] for u, v in t.edges]}


def dense_graph_cases(seed, quick=True):
    """Graphs with many ring bonds open at the same time (the writer then needs two-digit ring markers `%nn`): complete graphs,
    fans (a path plus spokes from its first node), wheels, with single bonds and with a few seeded non-single orders."""
    rng = random.Random(seed * 104729 + 7)
    shapes = []
    for n in ((6, 7, 8) if quick else (6, 7, 8, 9)):
        shapes.append(('K%d' % n, nx.complete_graph(n)))
    for n in ((10, 12, 14) if quick else (10, 11, 12, 13, 14, 16)):
        fan = nx.path_graph(n)
        fan.add_edges_from((0, k) for k in range(2, n))
        shapes.append(('fan%d' % n, fan))
        shapes.append(('wheel%d' % n, nx.wheel_graph(n)))
    for name, g0 in shapes:
        nodes = list(g0.nodes)
        for variant in range(2 if quick else 5):
            lab = nodes[:]
            if variant:
                rng.shuffle(lab)
            yield {'nodes': [[lab[i], NAMES[i % 3]] for i in nodes],
                   'edges': [[lab[u], lab[v], 1 if variant == 0 else rng.choice((1, 1, 1, 1, 2, 3, 0))] for u, v in g0.edges]}


def build(case, name_attr='fragname'):
    g = nx.Graph()
    for key, name in case['nodes']:
        g.add_node(key, **{name_attr: name})
    for u, v, o in case['edges']:
        g.add_edge(u, v, order=o)
    return g
