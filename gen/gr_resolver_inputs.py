"""
GR - inputs for the multi-resolution resolver (properties C02, C03, C06, C12, C15).

Everything a case needs is produced here *by construction*, without calling CGsmiles, pysmiles or the
CGsmiles writer.  A case is a JSON-able dict

    {'id':      readable key (family/shape/design/...),
     'base':    {'nodes': [[key, fragname], ...], 'edges': [[u, v, order], ...]} or None
                the INTENDED base graph; keys are 0..n-1 in order of appearance in `base_str`
                (None for strings typed in from the docs / tests, where the reader's graph is used),
     'base_str': '{[#A][#B]|2}',
     'blocks':  ['{#A=...,#B=...}', ...]      one fragment block per further resolution,
     'all_atom': bool   the last block is OpenSMILES,
     'legacy':  bool    matching convention,
     'valid':   bool    True: by construction the string is well formed and must resolve,
     'design':  'unique' | 'homo' | 'free' | 'hand' | 'layered',
     'bonds':   None or [[p, q, tp, tq, order], ...]  (design 'unique', legacy=True only) the inter-fragment
                bonds of the FIRST resolution step that must exist, as (coarse node, coarse node,
                template node in p's fragment, template node in q's fragment, bond order),
     'tags':    [...]}

Families
  two_level_cases   base graphs (all connected graphs up to N nodes, bond-order assignments incl. 0 and 2/3,
                    virtual nodes first/middle/last, multiplied units `|n`) x fragment designs:
      unique  every (edge, unit of order) gets its own label pair ($L/$L or >L/<L); every base node its own
              fragment name; leftovers with unmatched labels; several descriptors per atom; `=[$L]` orders
      homo    only unlabelled `$` (or one label), fragment names repeated, every copy has at least as many
              descriptors as its weighted degree (so each unit of order can get its own pair, whatever the
              first-match search picks), surplus descriptors left over
      free    random fills from `$ $A $B > < >A <A` with orders 1/2, random reuse of names: ambiguous and
              mismatching on purpose; only the universally quantified clauses apply
      hand    strings from the tests and the docs, F4 probes
    all-atom bodies (PEO, OH, PS with an internal ring, explicit [H], weights, charges, internal double
    bonds, free annotations, aromatic units) and coarse bodies (single node, chains, branch, ring; internal
    bond orders; per-node annotations), legacy True/False.
  layered_cases     a two-level description grouped into 1..2 intermediate levels (fresh label pair per crossing
                    edge, order symbol = order of the crossing edge, quotient edge order = number of crossing
                    edges) + the flat string that denotes the same molecule; docs / test_layering strings.
  stereo_cases      molecules with E/Z double bonds and labelled stereocentres, every admissible cut set.
  zero_weight_cases two-level strings with weight 0 on explicit hydrogens / heavy atoms (C02).
  shared_cases      shared atoms `!` (2-, 3-, 4-fold) with the fine graph and every membership known by construction (C02).
  layered_reuse_cases / layered_shared_cases   layered strings with a fragment name defined on several levels / with `!`
                    on two consecutive levels, each with its flat string (C06; the former also C02).

Scope decisions (so that no check demands more than the properties state):
  * no `!` outside shared_cases / layered_shared_cases (shared atoms belong to C10; those two families give every pair
    a label of its own and use no aromatic atoms); no order-0 descriptors and no descriptor after a ring digit that has
    a bond symbol (F3 / F2, property C13); ring-closure bond symbols are written at both ring markers; a bond
    symbol is never written directly behind `|n`; no `))` (F7); `%nn` markers come after the single digits.
  * aromatic atoms only as complete benzene rings or as the documented three-bead benzene.
"""
import itertools
import random
import networkx as nx

SYM = {0: '.', 1: '', 2: '=', 3: '#', 4: '$'}


# =========================================================================================== writer
def render_graph(nodes, edges, token, start=None):
    """Write a connected graph as CGsmiles text (without braces).

    nodes: list of ids (children are visited in this order), edges: [(u, v, order)], token: {id: text of the
    node incl. any descriptors}.  Returns (text, appearance) - appearance[i] is the id of the i-th node in
    the text, i.e. the key the reader gives it.  Never writes '))', writes ring-bond symbols at both markers.
    """
    pos = {u: i for i, u in enumerate(nodes)}
    adj = {u: [] for u in nodes}
    for u, v, o in edges:
        adj[u].append((v, o))
        adj[v].append((u, o))
    for u in adj:
        adj[u].sort(key=lambda t: pos[t[0]])
    start = nodes[0] if start is None else start
    order, children, seen = [], {u: [] for u in nodes}, set()

    def dfs(u):
        seen.add(u)
        order.append(u)
        for v, o in adj[u]:
            if v not in seen:
                children[u].append((v, o))
                dfs(v)
    dfs(start)
    if len(order) != len(nodes):
        raise ValueError('graph not connected')
    idx = {u: i for i, u in enumerate(order)}
    tree = {frozenset((u, v)) for u in nodes for v, _ in children[u]}
    back = sorted((min(idx[u], idx[v]), max(idx[u], idx[v]), o) for u, v, o in edges
                  if frozenset((u, v)) not in tree)
    rings = {}
    for rid, (a, b, o) in enumerate(back, start=1):
        mark = str(rid) if rid < 10 else '%%%02d' % rid
        for x in (a, b):
            rings.setdefault(order[x], []).append((rid, SYM[o] + mark))

    def emit(u):
        s = token[u] + ''.join(m for _, m in sorted(rings.get(u, [])))
        ch = children[u]
        for v, o in ch[:-1]:
            s += SYM[o] + '(' + emit(v) + ')'
        if ch:
            v, o = ch[-1]
            s += SYM[o] + emit(v)
        return s
    return emit(start), order


def relabel_by_appearance(nodes, edges, appearance):
    """Intended graph with keys = position in the text."""
    key = {u: i for i, u in enumerate(appearance)}
    names = dict(nodes)
    return {'nodes': [[key[u], names[u]] for u in appearance],
            'edges': sorted([sorted([key[u], key[v]]) + [o] for u, v, o in edges])}


def base_to_text(names, edges):
    """names: list of fragment names (node i has names[i]); returns (text with braces, intended graph)."""
    ids = list(range(len(names)))
    text, app = render_graph(ids, edges, {i: '[#%s]' % names[i] for i in ids})
    return '{' + text + '}', relabel_by_appearance([(i, names[i]) for i in ids], edges, app)


def intended_graph(base):
    g = nx.Graph()
    for k, name in base['nodes']:
        g.add_node(k, fragname=name)
    for u, v, o in base['edges']:
        g.add_edge(u, v, order=o)
    return g


def full_string(case):
    return case['base_str'] + '.' + '.'.join(case['blocks'])


# =========================================================================================== fragment bodies
# all-atom bodies: text with slots {k}; at[k] = template atom the slot belongs to; cap[k] = free valence of
# that atom; dbl[k] = the atom can take a double bond.  A slot written in front of the first atom is a
# leading slot (descriptor, then the order symbol), all others follow their atom (order symbol, descriptor).
AA_BODIES = {
    'PEO': dict(t='{0}COC{1}', at=[0, 2], cap=[3, 3], dbl=[1, 1]),
    'OH': dict(t='{0}O', at=[0], cap=[2], dbl=[1]),
    'ME': dict(t='C{0}', at=[0], cap=[4], dbl=[1]),
    'PE': dict(t='{0}CC{1}', at=[0, 1], cap=[3, 3], dbl=[1, 1]),
    'PS': dict(t='{0}CC{1}c1ccccc1', at=[0, 1], cap=[3, 2], dbl=[1, 0]),
    'HT': dict(t='{0}[H]', at=[0], cap=[1], dbl=[0]),
    'CP': dict(t='{0}C1CCC{1}C1', at=[0, 3], cap=[2, 2], dbl=[0, 0]),
    'AC': dict(t='{0}CC(=O)O{1}', at=[0, 3], cap=[3, 1], dbl=[1, 0]),
    'MA': dict(t='{0}CC{1}C(=O)OC{2}', at=[0, 1, 5], cap=[3, 2, 3], dbl=[1, 0, 1]),
    'W': dict(t='[OH;0.5]C{0}C{1}O', at=[1, 2], cap=[2, 2], dbl=[0, 0]),
    'WH': dict(t='[O;0.5]([H;0.2])[C;0.1]{0}C{1}O', at=[2, 3], cap=[2, 2], dbl=[0, 0]),
    'ION': dict(t='{0}[O-].[Na+]', at=[0], cap=[1], dbl=[0]),
    'AM': dict(t='{0}C[NH3+]', at=[0], cap=[3], dbl=[1]),
    'ENE': dict(t='{0}C=C{1}', at=[0, 1], cap=[2, 2], dbl=[0, 0]),
    'FR': dict(t='{0}[C;foo=bar]C{1}', at=[0, 1], cap=[3, 3], dbl=[1, 1]),
    'CH': dict(t='{0}[C;x=R](F)C{1}', at=[0, 2], cap=[2, 3], dbl=[0, 1]),
    'PH': dict(t='{0}c1ccccc1', at=[0], cap=[1], dbl=[0], arom=1),
    'PPH': dict(t='{0}c1ccc{1}cc1', at=[0, 3], cap=[1, 1], dbl=[0, 0], arom=1),
}
AA_GENERAL = ['PEO', 'OH', 'ME', 'PE', 'PS', 'HT', 'CP', 'AC', 'MA', 'W', 'WH', 'ION', 'AM', 'ENE', 'FR', 'CH',
              'PH', 'PPH']
# bodies with FALSY annotations (weight 0 on explicit hydrogens and on heavy atoms): a copy must carry the value the
# template defines, not the value of a neighbour and not the default.  Kept out of AA_GENERAL (used by zero_weight_cases
# only) so that the streams of the existing families do not change.
AA_BODIES.update({
    'WZ': dict(t='[O;0.5]([H;0])[C;0.1]{0}C{1}O', at=[2, 3], cap=[2, 2], dbl=[0, 0]),
    'HZ': dict(t='{0}C([H;0])C{1}', at=[0, 2], cap=[2, 3], dbl=[0, 0]),
    'HZ2': dict(t='[H;0]C{0}([H;0])C{1}', at=[1, 3], cap=[1, 3], dbl=[0, 0]),
    'HM': dict(t='C{0}([H;0])([H;0.3])C{1}', at=[0, 3], cap=[1, 3], dbl=[0, 0]),
    'ZC': dict(t='{0}[CH2;0]C{1}', at=[0, 1], cap=[1, 3], dbl=[0, 0]),
    'ZO': dict(t='[OH;0]C{0}C{1}', at=[1, 2], cap=[2, 3], dbl=[0, 0]),
    'ZN': dict(t='{0}C[N;0]([H;0])C{1}', at=[0, 3], cap=[3, 3], dbl=[0, 0]),
})
AA_ZERO = ['WZ', 'HZ', 'HZ2', 'HM', 'ZC', 'ZO', 'ZN']

# coarse bodies: n nodes, internal edges with orders, optional per-node annotation; every node is a slot
CG_BODIES = {
    'c1': dict(n=1, e=[]),
    'c2': dict(n=2, e=[(0, 1, 1)]),
    'c2d': dict(n=2, e=[(0, 1, 2)]),
    'c3': dict(n=3, e=[(0, 1, 1), (1, 2, 1)], ann={1: 'w=2'}),
    'b4': dict(n=4, e=[(0, 1, 1), (1, 2, 1), (1, 3, 1)]),
    'r3': dict(n=3, e=[(0, 1, 1), (1, 2, 1), (0, 2, 1)]),
    'r4t': dict(n=5, e=[(0, 1, 1), (1, 2, 1), (2, 3, 1), (0, 3, 1), (3, 4, 1)], ann={4: 'foo=bar'}),
    'c2v': dict(n=3, e=[(0, 1, 1), (1, 2, 0)]),
}
CG_GENERAL = ['c1', 'c2', 'c2d', 'c3', 'b4', 'r3', 'r4t', 'c2v']
CG_CAP = 4


def _desc(kind, label, order, leading=False):
    d = '[%s%s]' % (kind, label)
    return d + SYM[order] if leading else SYM[order] + d


def render_aa_fragment(body, fills):
    """fills: {slot: [(kind, label, order), ...]}.  Returns the fragment text."""
    b = AA_BODIES[body]
    t = b['t']
    out = {}
    for k in range(len(b['at'])):
        leading = t.startswith('{%d}' % k)
        out[k] = ''.join(_desc(kd, lb, o, leading) for kd, lb, o in fills.get(k, []))
    return t.format(*[out[k] for k in range(len(b['at']))])


def render_cg_fragment(body, fills, node_names):
    """Coarse fragment: fills {body node: [(kind, label, order)]}.  Returns (text, {body node: template key})."""
    b = CG_BODIES[body]
    ids = list(range(b['n']))
    token = {}
    for i in ids:
        ann = b.get('ann', {}).get(i)
        token[i] = '[#%s%s]' % (node_names[i], ';' + ann if ann else '') + \
            ''.join(_desc(kd, lb, o) for kd, lb, o in fills.get(i, []))
    text, app = render_graph(ids, b['e'], token)
    return text, {u: i for i, u in enumerate(app)}


# =========================================================================================== base-graph shapes
def connected_graphs(max_nodes, min_nodes=1):
    out = []
    for g in nx.graph_atlas_g():
        n = g.number_of_nodes()
        if n == 0 or n < min_nodes:
            continue
        if n > max_nodes:
            break
        if nx.is_connected(g):
            out.append((n, sorted(tuple(sorted(e)) for e in g.edges)))
    return out


def order_variants(edges, rng, n_random):
    """Bond-order assignments: all single; each edge in turn 2, 3 (first edge only) and 0 if the rest stays
    connected or not (order 0 between real nodes is a virtual edge); seeded random ones."""
    m = len(edges)
    out = [tuple([1] * m)]
    for i in range(m):
        for o in ((2, 0, 3) if i == 0 else (2, 0)):
            out.append(tuple(o if j == i else 1 for j in range(m)))
    seen = set(out)
    for _ in range(n_random):
        t = tuple(rng.choice((1, 1, 2, 0, 3)) for _ in range(m))
        if t not in seen:
            seen.add(t)
            out.append(t)
    return out


# =========================================================================================== designs
def _labels():
    alpha = 'abcdefghijklmnopqrstuvwxyz'
    for a in alpha:
        yield a
    for a in alpha:
        for b in alpha + '0123456789':
            yield a + b


def _cyclic(edges):
    """The resolved molecule can contain a ring made of inter-fragment bonds: the base graph has a cycle of edges
    with order >= 1, or an edge of order >= 2.  In such inputs no double bond is written next to a descriptor and no
    descriptor of order 2 is used: a ring of alternating single / double bonds is aromatic by pysmiles' definition
    and comes back with bond orders 1.5 (outside the properties checked here).  Phenyl / phenylene bodies are kept out
    of such inputs as well (a macrocycle of aromatic atoms: whether its linking bonds are aromatic is pysmiles' call)."""
    g = nx.Graph()
    for u, v, o in edges:
        if o >= 2:
            return True
        if o >= 1:
            g.add_edge(u, v)
    return g.number_of_edges() > 0 and g.number_of_edges() >= g.number_of_nodes() - nx.number_connected_components(g) + 1


def _pick_body(rng, need, all_atom, allow_arom=True, allow_dbl=True, pool=None):
    """A body whose slots can take `need` descriptors in total (all-atom bodies from `pool`, default AA_GENERAL)."""
    if all_atom:
        names = [b for b in (pool or AA_GENERAL) if sum(AA_BODIES[b]['cap']) >= need and (allow_arom or not AA_BODIES[b].get('arom'))
                 and (allow_dbl or b != 'ENE')]
        return rng.choice(names) if names else 'ME'
    names = [b for b in CG_GENERAL if CG_BODIES[b]['n'] * CG_CAP >= need]
    return rng.choice(names)


def _slots(body, all_atom):
    if all_atom:
        b = AA_BODIES[body]
        return [dict(k=k, cap=b['cap'][k], dbl=b['dbl'][k]) for k in range(len(b['at']))]
    return [dict(k=k, cap=CG_CAP, dbl=1) for k in range(CG_BODIES[body]['n'])]


def _fragment_text(name, body, fills, all_atom):
    """Returns (definition text, {slot: template node})."""
    if all_atom:
        return '#%s=%s' % (name, render_aa_fragment(body, fills)), dict(enumerate(AA_BODIES[body]['at']))
    n = CG_BODIES[body]['n']
    names = ['%s%d' % (name.lower(), i) if i % 2 == 0 else 'x' for i in range(n)]
    text, key = render_cg_fragment(body, fills, names)
    return '#%s=%s' % (name, text), key


def design_unique(rng, n, edges, all_atom, virtual=(), leftovers=True, pool=None):
    """Every (edge, unit of order) gets its own label pair.  Returns (names, block text, bonds) or None.
    pool: the all-atom bodies to choose from (default AA_GENERAL)."""
    labels = _labels()
    cyc = _cyclic(edges)
    names = ['V%d' % i if i in virtual else 'N%d' % i for i in range(n)]
    need = {i: 0 for i in range(n)}
    for u, v, o in edges:
        need[u] += o
        need[v] += o
    bodies, free, fills = {}, {}, {}
    for i in range(n):
        if i in virtual:
            continue
        bodies[i] = _pick_body(rng, need[i], all_atom, allow_arom=not cyc, allow_dbl=not cyc, pool=pool)
        free[i] = {s['k']: s['cap'] for s in _slots(bodies[i], all_atom)}
        fills[i] = {}
    dbl = {i: {s['k']: s['dbl'] for s in _slots(bodies[i], all_atom)} for i in bodies}
    planned = []

    def take(i, weight, want_dbl):
        ks = [k for k, c in free[i].items() if c >= weight and (not want_dbl or dbl[i][k])]
        if not ks:
            return None
        k = rng.choice(ks)
        free[i][k] -= weight
        return k
    for u, v, o in edges:
        used_pairs = set()
        for _ in range(o):
            for attempt in range(12):
                border = 2 if (rng.random() < 0.2 and not cyc and attempt < 6) else 1
                ku = take(u, border, border == 2)
                kv = take(v, border, border == 2) if ku is not None else None
                if ku is not None and kv is not None and (ku, kv) not in used_pairs:
                    break
                # give the capacity back and try again: two units of one edge never join the same two atoms
                if ku is not None:
                    free[u][ku] += border
                if kv is not None:
                    free[v][kv] += border
                ku = kv = None
            if ku is None or kv is None:
                return None
            used_pairs.add((ku, kv))
            lab = next(labels)
            if rng.random() < 0.5:
                du, dv = ('$', lab, border), ('$', lab, border)
            elif rng.random() < 0.5:
                du, dv = ('>', lab, border), ('<', lab, border)
            else:
                du, dv = ('<', lab, border), ('>', lab, border)
            fills[u].setdefault(ku, []).append(du)
            fills[v].setdefault(kv, []).append(dv)
            planned.append((u, v, ku, kv, border))
    if leftovers:
        for i in bodies:
            if rng.random() < 0.35:
                k = take(i, 1, False)
                if k is not None:
                    fills[i].setdefault(k, []).append((rng.choice('$><'), next(labels) + 'L', 1))
    for i in fills:
        for k in fills[i]:
            rng.shuffle(fills[i][k])
    defs, slotmap = [], {}
    for i in bodies:
        text, sm = _fragment_text(names[i], bodies[i], fills[i], all_atom)
        defs.append(text)
        slotmap[i] = sm
    rng.shuffle(defs)
    bonds = [[u, v, slotmap[u][ku], slotmap[v][kv], b] for u, v, ku, kv, b in planned]
    return names, '{' + ','.join(defs) + '}', bonds


def design_homo(rng, n, edges, all_atom, virtual=(), label=''):
    """Only `$<label>` descriptors of order 1; names repeat; every copy has >= weighted degree descriptors."""
    need = {i: 0 for i in range(n)}
    for u, v, o in edges:
        need[u] += o
        need[v] += o
    types = {}     # (body, total) -> name
    names, defs = [], []
    real = [i for i in range(n) if i not in virtual]
    max_need = max([need[i] for i in real] or [0])
    # few types: one that fits everything (homopolymer) or one per distinct need
    single = rng.random() < 0.5
    for i in range(n):
        if i in virtual:
            names.append('V%d' % i)
            continue
        want = max_need if single else need[i]
        want = want + (1 if rng.random() < 0.3 else 0)       # surplus descriptor (left over)
        key = want
        if key not in types:
            body = _pick_body(rng, want, all_atom, allow_arom=False, allow_dbl=not _cyclic(edges))
            slots = _slots(body, all_atom)
            fills, left = {}, want
            order = list(range(len(slots)))
            rng.shuffle(order)
            while left > 0:
                progressed = False
                for j in order:
                    if left > 0 and slots[j]['cap'] > 0:
                        fills.setdefault(slots[j]['k'], []).append(('$', label, 1))
                        slots[j]['cap'] -= 1
                        left -= 1
                        progressed = True
                if not progressed:
                    return None
            name = 'M%d' % len(types)
            types[key] = name
            defs.append(_fragment_text(name, body, fills, all_atom)[0])
        names.append(types[key])
    rng.shuffle(defs)
    return names, '{' + ','.join(defs) + '}', None


FREE_POOL = [('$', '', 1), ('$', '', 1), ('$', 'A', 1), ('$', 'B', 1), ('>', '', 1), ('<', '', 1), ('>', 'A', 1), ('<', 'A', 1),
             ('$', '', 2), ('>', '', 2), ('<', '', 2), ('$', '1', 1)]


def design_free(rng, n, edges, all_atom, virtual=()):
    """Random fills, random reuse of names: ambiguous / mismatching on purpose."""
    ntypes = rng.randint(1, max(1, min(3, n)))
    defs, tnames = [], []
    cyc = _cyclic(edges)
    for t in range(ntypes):
        body = _pick_body(rng, rng.randint(1, 3), all_atom, allow_arom=False, allow_dbl=not cyc)
        fills = {}
        for s in _slots(body, all_atom):
            cap = s['cap']
            for _ in range(rng.choice((0, 1, 1, 2))):
                d = rng.choice(FREE_POOL)
                if d[2] == 2 and (not s['dbl'] or (cyc and all_atom)):
                    d = (d[0], d[1], 1)
                if cap >= d[2]:
                    fills.setdefault(s['k'], []).append(d)
                    cap -= d[2]
        name = 'T%d' % t
        tnames.append(name)
        defs.append(_fragment_text(name, body, fills, all_atom)[0])
    names = ['V%d' % i if i in virtual else rng.choice(tnames) for i in range(n)]
    return names, '{' + ','.join(defs) + '}', None


# =========================================================================================== two-level family
def _with_virtual(rng, n, edges, where):
    """Add one fragment-less node attached by order-0 edges (one edge, with probability 0.4 a second one that closes
    a ring).  where ('first' | 'middle' | 'last') is passed on: it tells the writer at which position of the node
    list the virtual node goes (the writer starts at the first node of that list and visits neighbours in list
    order, so 'first' makes it node 0; the tag virtual-last / virtual-not-last is computed from the real position)."""
    v = n
    a = rng.randrange(n)
    new_edges = list(edges) + [(a, v, 0)]
    if n > 1 and rng.random() < 0.4:
        b = rng.choice([x for x in range(n) if x != a])
        new_edges.append((b, v, 0))
    return n + 1, new_edges, {v}, where


def _emit_two_level(fam, sid, n, edges, design, all_atom, legacy, rng, virtual=(), vwhere=None, tags=(), pool=None):
    fn = {'unique': design_unique, 'homo': design_homo, 'free': design_free}[design]
    if design == 'homo':
        res = fn(rng, n, edges, all_atom, virtual, label=rng.choice(['', '', 'A', '7']))
    elif design == 'unique' and pool is not None:
        res = design_unique(rng, n, edges, all_atom, virtual, pool=pool)
    else:
        res = fn(rng, n, edges, all_atom, virtual)
    if res is None:
        return None
    names, block, bonds = res
    ids = list(range(n))
    # node order for the writer decides where a virtual node appears in the string
    if virtual:
        v = next(iter(virtual))
        rest = [i for i in ids if i != v]
        if vwhere == 'first':
            ids = [v] + rest
        elif vwhere == 'last':
            ids = rest + [v]
        else:
            ids = rest[:1] + [v] + rest[1:]
    text, app = render_graph(ids, edges, {i: '[#%s]' % names[i] for i in ids})
    base = relabel_by_appearance([(i, names[i]) for i in range(n)], edges, app)
    key = {u: i for i, u in enumerate(app)}
    if bonds is not None:
        bonds = [[key[p], key[q], tp, tq, b] for p, q, tp, tq, b in bonds]
    if bonds is not None and not legacy:
        bonds = None          # labels do not count: which atoms bond is not determined by construction
    tg = list(tags)
    if virtual:
        vk = key[next(iter(virtual))]
        tg.append('virtual-' + ('last' if vk == n - 1 else 'not-last'))
    return {'id': '%s/%s/%s/%s/%s' % (fam, sid, design, 'aa' if all_atom else 'cg', 'L' if legacy else 'N'),
            'base': base, 'base_str': '{' + text + '}', 'blocks': [block], 'all_atom': all_atom, 'legacy': legacy,
            'valid': True, 'design': design, 'bonds': bonds, 'tags': tg}


def two_level_cases(tier, seed, reps=None):
    """Exhaustive part (independent of the seed): every connected graph up to N nodes x order variants x
    designs x {all-atom, coarse} x {legacy, not}; the random choices inside a design are taken from a
    generator seeded by the case index, not by `seed`.  Seeded random part afterwards."""
    max_n = 4 if tier == 'quick' else 5
    reps = reps or (2 if tier == 'quick' else 3)
    count = 0
    for n, edges0 in connected_graphs(max_n):
        m = len(edges0)
        variants = order_variants(edges0, random.Random(1000 + count), 0 if tier == 'quick' else 2)
        if tier == 'quick' and n == 4:
            variants = variants[:1] + variants[1:][::2]
        for vi, orders in enumerate(variants):
            edges = [(u, v, o) for (u, v), o in zip(edges0, orders)]
            sid = 'g%d_%s' % (n, ''.join('%d%d%d' % e for e in edges))
            for design in ('unique', 'homo', 'free'):
                for all_atom in (True, False):
                    for legacy in (True, False):
                        if design == 'unique' and not legacy and vi > 2:
                            continue
                        for r in range(reps):
                            count += 1
                            rng = random.Random('%s|%s|%s|%s|%d' % (sid, design, all_atom, legacy, r))
                            c = _emit_two_level('atlas', sid + '.%d' % r, n, edges, design, all_atom, legacy, rng)
                            if c:
                                yield c
    # virtual nodes: first / middle / last
    for n, edges0 in connected_graphs(3 if tier == 'quick' else 4):
        for where in ('first', 'middle', 'last'):
            for design in ('unique', 'homo'):
                for all_atom in (True, False):
                    rng = random.Random('virt|%d|%s|%s|%s|%s' % (n, edges0, where, design, all_atom))
                    edges = [(u, v, 1) for u, v in edges0]
                    n2, e2, virt, w = _with_virtual(rng, n, edges, where)
                    sid = 'v%s_g%d_%s' % (where, n, ''.join('%d%d%d' % e for e in e2))
                    c = _emit_two_level('virtual', sid, n2, e2, design, all_atom, True, rng, virtual=virt, vwhere=w)
                    if c:
                        yield c
    yield from hand_cases()
    yield from multiplied_cases(tier)
    # seeded random part: larger trees with extra ring edges
    rng = random.Random(seed * 104729 + 7)
    for i in range(60 if tier == 'quick' else 4000):
        n = rng.randint(5, 8)
        edges = [(rng.randrange(j), j) for j in range(1, n)]
        for _ in range(rng.choice((0, 0, 1, 2))):
            u, v = sorted(rng.sample(range(n), 2))
            if (u, v) not in edges:
                edges.append((u, v))
        edges = [(u, v, rng.choice((1, 1, 1, 2, 0))) for u, v in edges]
        # keep the graph connected through its edges of any order (order 0 is a legal virtual edge)
        design = rng.choice(('unique', 'homo', 'free'))
        c = _emit_two_level('random', 'r%d_%d' % (seed, i), n, edges, design, rng.random() < 0.6, rng.random() < 0.7, rng)
        if c:
            yield c


# ------------------------------------------------------------------------------------------- typed-in strings
HAND = [
    # (id, string, all_atom, legacy, tags)
    ('test/peo', '{[#OHter][#PEO]|2[#OHter]}.{#PEO=[$]COC[$],#OHter=[$]O}', True, True, ['multiplied']),
    ('test/tc', '{[#TC1][#TC4][#TC1]}.{#TC1=[$1]=CC=[$2],#TC4=[$1]=CC=[$2]}', True, True, []),
    ('test/leftover', '{[#OHter][#PEO]|2[#OHter]}.{#PEO=[$]CO[>]C[$],#OHter=[$]O}', True, True, ['multiplied']),
    ('test/ionic', '{[#OHter][#PEO]|2[#OHter]}.{#PEO=[$]COC[$],#OHter=[$][O-].[Na+]}', True, True, ['multiplied']),
    ('test/ion-end', '{[#OH][#PEO]|2[#ON]}.{#PEO=[$]COC[$],#OH=[$]O,#ON=[$][O-]}', True, True, ['multiplied']),
    ('test/unconsumed-ids', '{[#OHter][#PEO]|2[#OHter]}.{#PEO=[>][$1A]COC[<],#OHter=[$1A][O]}', True, True, ['multiplied']),
    ('test/branched', '{[#Hter][#PE]([#PEO][#Hter])[#PE]([#PEO][#Hter])[#Hter]}.{#Hter=[$]H,#PE=[$]CC[$][$],#PEO=[$]COC[$]}',
     True, True, []),
    ('test/ps', '{[#Hter][#PS]|2[#Hter]}.{#PS=[$]CC[$]c1ccccc1,#Hter=[$][H]}', True, True, ['multiplied', 'aromatic']),
    ('test/glc', '{[#GLC]}.{#GLC=[CH;x=R]([CH;x=S]1[CH;x=S]([C;x=R](C(C(O1)O)O)O)O)O}', True, True, []),
    ('test/chiral-frag', '{[#A][#B][#C]}.{#A=O[>],#C=O[<],#B=[<]C[CH;x=R][>]C(=O)OC}', True, True, []),
    ('test/virtual', '{[#SP4]1.2[#SP4].3[#SP1r]1.[#TC4]23}.{#SP4=OC[$]C[$]O,#SP1r=[$]OC[$]CO}', True, True, ['virtual-last']),
    ('test/weights', '{[#SP4]1[#SP4][#SP1r]1}.{#SP4=[OH;0.5]C[$]C[$]O,#SP1r=[$]OC[$]CO}', True, True, []),
    ('test/weights2', '{[#SP4]1[#SP4][#SP1r]1}.{#SP4=[OH;0.5][C;0.1][$]C[$]O,#SP1r=[$]OC[$]CO}', True, True, []),
    ('test/weights-h', '{[#SP4]1[#SP4][#SP1r]1}.{#SP4=[O;0.5]([H;0.2])[C;0.1][$]C[$]O,#SP1r=[$]OC[$]CO}', True, True, []),
    ('test/cg', '{[#A][#B]}.{#A=[#A1][#A2][>],#B=[<][#B1][#B2]}', False, True, []),
    ('docs/benzene', '{[#TC5]1[#TC5][#TC5]1}.{#TC5=[$]cc[$]}', True, True, ['aromatic', 'aromatic-ring-bonds']),
    ('docs/benzene-N', '{[#TC5]1[#TC5][#TC5]1}.{#TC5=[$]cc[$]}', True, False, ['aromatic', 'aromatic-ring-bonds']),
    ('docs/cyclohexane', '{[#SC3]=[#SC3]}.{#SC3=[$]CCC[$]}', True, True, []),
    ('docs/naphthalene-like', '{[#A]#[#A]}.{#A=[$]CCC[$]CC[$]}', True, True, []),
    ('docs/pentene', '{[#A][#B]}.{#A=CC=[$],#B=[$]=CCC}', True, True, []),
    ('docs/ps-directed', '{[#PS]|4}.{#PS=[>]CC[<]c1ccccc1}', True, True, ['multiplied', 'aromatic']),
    ('docs/glucose', '{[#SP4r]1.2[#SP4r].3[#SP1r]1.[#TC4]23}.{#SP4r=OC[$]C[$]O,#SP1r=[$]OC[$]CO}', True, True, ['virtual-last']),
    ('docs/mpeg2', '{[#PMA]([#PEG]|3)|5}.{#PMA=[<]CC[>]C(=O)OC[$],#PEG=[$]COC[$]}', True, True, ['multiplied']),
    ('hand/biphenyl', '{[#P1][#P2]}.{#P1=[$]c1ccccc1,#P2=[$]c1ccccc1}', True, True, ['aromatic']),
    ('hand/terphenyl', '{[#P1][#P2][#P1]}.{#P1=[$]c1ccccc1,#P2=[$]c1ccc([$])cc1}', True, True, ['aromatic']),
    ('hand/benzene-dir', '{[#B]1[#B][#B]1}.{#B=[>]cc[<]}', True, True, ['aromatic', 'aromatic-ring-bonds']),
    ('hand/naphthalene', '{[#X]=[#Y]}.{#X=[$]c1ccccc1[$],#Y=[$]cccc[$]}', True, True, ['aromatic', 'aromatic-ring-bonds']),
    # F4: a virtual node that is not the last node
    ('f4/first', '{[#V].[#A][#B]}.{#A=CC[$],#B=[$]O}', True, True, ['virtual-not-last']),
    ('f4/middle', '{[#A].([#V])[#B]}.{#A=CC[$],#B=[$]O}', True, True, ['virtual-not-last']),
    ('f4/ring', '{[#A]1.[#V].[#B]1[#C]}.{#A=CC[$],#B=[$]O[$],#C=[$]C}', True, True, ['virtual-not-last']),
    ('f4/two', '{[#V].[#A]1.[#W].[#B]1}.{#A=CC[$],#B=[$]O}', True, True, ['virtual-not-last']),
    ('f4/cg', '{[#V].[#A][#B]}.{#A=[#a1][#a2][$],#B=[$][#b1]}', False, True, ['virtual-not-last']),
    ('f4/last', '{[#A][#B].[#V]}.{#A=CC[$],#B=[$]O}', True, True, ['virtual-last']),
    # labelled / unlabelled, legacy off
    ('hand/labels-N', '{[#A][#B][#C]}.{#A=CC[$x],#B=[$y]O[>z],#C=[<w]C}', True, False, []),
    ('hand/labels-L', '{[#A][#B][#C]}.{#A=CC[$x],#B=[$y]O[>z],#C=[<w]C}', True, True, []),
    ('hand/mixed-N', '{[#A]=[#B]}.{#A=[$]CC[>q],#B=[<r]CC[$s]}', True, False, []),
    ('hand/two-per-atom', '{[#A]=[#B]}.{#A=CC[$][$],#B=[$][$]CC}', True, True, []),
    ('hand/two-per-atom-cg', '{[#A]=[#B]}.{#A=[#a][#b][$][$],#B=[$][$][#c][#d]}', False, True, []),
    ('hand/cg-ring', '{[#A]1[#A][#A]1}.{#A=[>][#x]1[#y][#z]1[<]}', False, True, []),
    ('hand/cg-order', '{[#A][#B]}.{#A=[#a]=[#b]=[$],#B=[$]=[#c]}', False, True, []),
]


def hand_cases():
    for cid, s, aa, leg, tags in HAND:
        i = s.index('}.{')
        yield {'id': 'hand/' + cid, 'base': None, 'base_str': s[:i + 1], 'blocks': _split_blocks(s[i + 2:]),
               'all_atom': aa, 'legacy': leg, 'valid': True, 'design': 'hand', 'bonds': None, 'tags': list(tags)}


def _split_blocks(s):
    out, depth, cur = [], 0, ''
    for ch in s:
        cur += ch
        if ch == '{':
            depth += 1
        elif ch == '}':
            depth -= 1
            if depth == 0:
                out.append(cur.lstrip('.'))
                cur = ''
    return out


def multiplied_cases(tier):
    """Multiplied units `|n`: homopolymers, end-capped chains, block chains, flat multiplied branches (grafts).
    The intended expansion is built by formula (docs: `[#A]|5` = five consecutive A; `[#A]([#B][#B])|5` = a chain of
    five units each consisting of A with the branch B B)."""
    reps = (2, 3) if tier == 'quick' else (2, 3, 5)
    frs = [('aa$', True, '#M=[$]COC[$]', '#T=[$]O', '#S=[$]CC[$]'),
           ('aa<>', True, '#M=[>]CC[<]C', '#T=[$]O', '#S=[$]CC[$]'),
           ('aa3', True, '#M=[>]CC[<]C(=O)OC[$]', '#T=[<]C', '#S=[$]COC[$]'),
           ('cg$', False, '#M=[$][#m1][#m2][$]', '#T=[$][#t1]', '#S=[$][#s1][$]'),
           ('cg<>', False, '#M=[>][#m1]([#m3])[#m2][<]', '#T=[<][#t1]', '#S=[$][#s1][$]')]
    for fid, aa, fm, ft, fs in frs:
        for k in reps:
            # homopolymer
            yield _mult_case('homo%d/%s' % (k, fid), '{[#M]|%d}' % k, ['M'] * k, [(i, i + 1, 1) for i in range(k - 1)],
                             '{%s}' % fm, aa)
            # capped chain
            names = ['T'] + ['M'] * k + ['T']
            yield _mult_case('capped%d/%s' % (k, fid), '{[#T][#M]|%d[#T]}' % k, names,
                             [(i, i + 1, 1) for i in range(k + 1)], '{%s,%s}' % (fm, ft), aa)
            # two blocks
            names = ['M'] * k + ['S'] * 2
            yield _mult_case('blocks%d/%s' % (k, fid), '{[#M]|%d[#S]|2}' % k, names,
                             [(i, i + 1, 1) for i in range(k + 1)], '{%s,%s}' % (fs, fm), aa)
            # graft: k units of M carrying a branch of two S
            if fid == 'aa3':
                names, edges = [], []
                for u in range(k):
                    a = 3 * u
                    names += ['M', 'S', 'S']
                    edges += [(a, a + 1, 1), (a + 1, a + 2, 1)]
                    if u:
                        edges.append((a - 3, a, 1))
                yield _mult_case('graft%d/%s' % (k, fid), '{[#M]([#S]|2)|%d}' % k, names, edges, '{%s,%s}' % (fm, fs), aa)


def _mult_case(cid, base_str, names, edges, block, aa):
    return {'id': 'mult/' + cid, 'base': {'nodes': [[i, nm] for i, nm in enumerate(names)],
                                          'edges': sorted([sorted([u, v]) + [o] for u, v, o in edges])},
            'base_str': base_str, 'blocks': [block], 'all_atom': aa, 'legacy': True, 'valid': True,
            'design': 'hand', 'bonds': None, 'tags': ['multiplied', 'repeated-names']}


# =========================================================================================== layered family
def _connected_partition(rng, n, edges, max_size=3):
    """Random partition of 0..n-1 into groups that are connected through edges of order >= 1."""
    adj = {i: set() for i in range(n)}
    for u, v, o in edges:
        if o >= 1:
            adj[u].add(v)
            adj[v].add(u)
    left = set(range(n))
    groups = []
    while left:
        s = min(left) if rng.random() < 0.5 else rng.choice(sorted(left))
        grp = [s]
        left.discard(s)
        size = rng.randint(1, max_size)
        while len(grp) < size:
            cand = sorted({w for g in grp for w in adj[g]} & left)
            if not cand:
                break
            w = rng.choice(cand)
            grp.append(w)
            left.discard(w)
        groups.append(sorted(grp))
    groups.sort()
    return groups


def group_level(rng, names, edges, groups, prefix, labels, reuse_names=False):
    """One intermediate level.  names/edges: the finer graph (node i is called names[i]); groups: partition.
    Returns (group names, quotient edges, block text).  Each crossing edge gets a fresh label pair, written with
    the order of the crossing edge; the quotient edge's order is the number of crossing edges."""
    gid = {}
    for g, members in enumerate(groups):
        for m in members:
            gid[m] = g
    gnames = ['%s%d' % (prefix, g) for g in range(len(groups))]
    if reuse_names:
        # a group is called like its first member: the same fragment name is then defined on two levels
        gnames = [names[members[0]] for members in groups]
    fills = {g: {} for g in range(len(groups))}
    qcount = {}
    for u, v, o in edges:
        if gid[u] == gid[v]:
            continue
        if o == 0:
            raise ValueError('order-0 edge between groups')
        lab = next(labels)
        if rng.random() < 0.5:
            du, dv = ('$', lab, o), ('$', lab, o)
        elif rng.random() < 0.5:
            du, dv = ('>', lab, o), ('<', lab, o)
        else:
            du, dv = ('<', lab, o), ('>', lab, o)
        fills[gid[u]].setdefault(u, []).append(du)
        fills[gid[v]].setdefault(v, []).append(dv)
        k = tuple(sorted((gid[u], gid[v])))
        qcount[k] = qcount.get(k, 0) + 1
    defs = []
    for g, members in enumerate(groups):
        inner = [(u, v, o) for u, v, o in edges if gid[u] == g and gid[v] == g]
        # the induced subgraph must be connected for the writer; order-0 inner edges count as written edges
        token = {m: '[#%s]' % names[m] + ''.join(_desc(kd, lb, o) for kd, lb, o in fills[g].get(m, [])) for m in members}
        text, _ = render_graph(members, inner, token)
        defs.append('#%s=%s' % (gnames[g], text))
    rng.shuffle(defs)
    qedges = [(a, b, c) for (a, b), c in sorted(qcount.items())]
    return gnames, qedges, '{' + ','.join(defs) + '}'


def layered_from_two_level(rng, names, edges, block, all_atom, levels, cid, legacy=True, bonds=None, reuse_names=False):
    """names/edges: base graph of the flat string; returns a case with 'flat' or None."""
    labels = ('q' + l for l in _labels())
    cur_names, cur_edges = list(names), list(edges)
    blocks = [block]
    sizes = []
    for lv in range(levels):
        n = len(cur_names)
        if n < 2:
            break
        groups = _connected_partition(rng, n, cur_edges, max_size=3 if lv == 0 else 2)
        if len(groups) == n and n > 1 and lv == 0:
            # force at least one real group
            for u, v, o in cur_edges:
                if o >= 1:
                    groups = [[u, v] if u < v else [v, u]] + [[i] for i in range(n) if i not in (u, v)]
                    groups.sort()
                    break
        try:
            gnames, qedges, gblock = group_level(rng, cur_names, cur_edges, groups, 'GHK'[lv], labels, reuse_names=reuse_names)
        except ValueError:
            return None
        if any(c > 3 for _, _, c in qedges):
            return None
        # the quotient must be connected to be written as one string
        q = nx.Graph()
        q.add_nodes_from(range(len(gnames)))
        q.add_edges_from((a, b) for a, b, _ in qedges)
        if not nx.is_connected(q):
            return None
        blocks.insert(0, gblock)
        sizes.append(len(groups))
        cur_names, cur_edges = gnames, qedges
    if len(blocks) == 1:
        return None
    base_str, base = base_to_text(cur_names, cur_edges)
    flat_str, flat_base = base_to_text(names, edges)
    return {'id': 'layered/%s/%dlv/%s' % (cid, len(blocks) - 1, 'aa' if all_atom else 'cg'),
            'base': base, 'base_str': base_str, 'blocks': blocks, 'all_atom': all_atom, 'legacy': legacy, 'valid': True,
            'design': 'layered', 'bonds': None, 'tags': ['layered'],
            'flat': {'base': flat_base, 'base_str': flat_str, 'blocks': [block]}}


LAYERED_HAND = [
    # (id, layered string, flat string or None, all_atom)
    ('docs/mpeg', '{[#mPEG]|5}.{#mPEG=[$][#PMA][$]([#PEG]|3)}.{#PMA=[<]CC[>]C(=O)OC[$],#PEG=[$]COC[$]}',
     '{[#PMA]([#PEG]|3)|5}.{#PMA=[<]CC[>]C(=O)OC[$],#PEG=[$]COC[$]}', True),
    ('docs/figure3', '{[#hphilic][#hdphob]|3[#hphilic]}.{#hphilic=[<][#PEO][>]|3,#hdphob=[<][#PMA][>]([#BUT])}.'
     '{#PEO=[<][#SN3r][>],#PMA=[<][#TC3][>][#SN4a][$],#BUT=[$][#SC3][$]}.'
     '{#SN3r=[<]COC[>],#TC3=[<]CC[>][$1],#SN4a=[$1]C(=O)OC[$2],#SC3=[$2]CCC}', None, True),
    ('docstring/blocks', '{[#B1][#B2][#B1]}.{#B1=[#PEO]|4,#B2=[#PE]|2}.{#PEO=[>]COC[<],#PE=[>]CC[<]}', None, True),
    ('test_layering/linear', '{[#A0][#B0]}.{#A0=[#A1a][#A1b][>],#B0=[<][#B1a][#B1b]}.'
     '{#A1a=[<][#A2a]([#A2b][#A2c])[#A2d][>],#A1b=[<][#A2c][#A2d][>],#B1a=[<][#B2a][#B2b][>],'
     '#B1b=[<][#B2c][>]([#B2d]1[#B2e][#B2f]1)}',
     '{[#A1a][#A1b][#B1a][#B1b]}.{#A1a=[<][#A2a]([#A2b][#A2c])[#A2d][>],#A1b=[<][#A2c][#A2d][>],'
     '#B1a=[<][#B2a][#B2b][>],#B1b=[<][#B2c][>]([#B2d]1[#B2e][#B2f]1)}', False),
    ('test_layering/cycle', '{[#A0]1[#A0][#A0]1}.{#A0=[>][#A1a][#A1b][<]}.'
     '{#A1a=[>][#A2a][#A2b][#A2c][<],#A1b=[<][#A2e][>]([#C][#D])}',
     '{[#A1a]1[#A1b][#A1a][#A1b][#A1a][#A1b]1}.{#A1a=[>][#A2a][#A2b][#A2c][<],#A1b=[<][#A2e][>]([#C][#D])}', False),
    ('hand/blocks', '{[#B1][#B2][#B1]}.{#B1=[<][#PEO][#PEO][>],#B2=[<][#PE][#PE][>]}.{#PEO=[>]COC[<],#PE=[>]CC[<]}',
     '{[#PEO]|2[#PE]|2[#PEO]|2}.{#PEO=[>]COC[<],#PE=[>]CC[<]}', True),
    ('hand/linring', '{[#R]}.{#R=[#X]=[#X]}.{#X=[$]CCC[$]}', '{[#X]=[#X]}.{#X=[$]CCC[$]}', True),
    # intermediate fragments joined by several `<` / `>` links of DIFFERENT order (a plain [>] must not pair with =[<])
    ('hand/mixed-order-links', '{[#L]=[#R]}.{#L=[#a][>][#b]=[>],#R=[<]=[#c][#d][<]}.'
     '{#a=[$A]O[$C],#b=[$A]C[>]C[>],#c=[<]C[$B]C[<],#d=[$C]N[$B]}',
     '{[#a]1[#b]=[#c][#d]1}.{#a=[$A]O[$C],#b=[$A]C[>]C[>],#c=[<]C[$B]C[<],#d=[$C]N[$B]}', True),
    ('hand/labelled-ring-of-units', '{[#U]1[#V][#W]1}.{#U=[<c][#p][#q][>a],#V=[<a][#r][#s][>b],#W=[<b][#t][#u][>c]}.'
     '{#p=[$1]C[$6],#q=[$1]C[$2],#r=[$2]C[$3],#s=[$3]C[$4],#t=[$4]C[$5],#u=[$5]C[$6]}',
     '{[#p]1[#q][#r][#s][#t][#u]1}.{#p=[$1]C[$6],#q=[$1]C[$2],#r=[$2]C[$3],#s=[$3]C[$4],#t=[$4]C[$5],#u=[$5]C[$6]}', True),
    # an intermediate fragment with a multiplied node FOLLOWED by a node that carries the link to the next unit. Fifth field
    # 'same': whichever compatible pair the search takes, both strings give the same molecule (every unit with two equal
    # descriptors is symmetric), so the two results are compared even when one of them leaves an edge without a bond
    ('hand/multiplied-then-link', '{[#G1][#G2]}.{#G1=[#W]|2[#X][$a],#G2=[$a][#Y]}.{#W=[$]CC[$],#X=[$]C[$a],#Y=[$a]CO}',
     '{[#W]|2[#X][#Y]}.{#W=[$]CC[$],#X=[$]C[$a],#Y=[$a]CO}', True, 'same'),
    ('hand/multiplied-then-link-coarse', '{[#G1][#G2][#G1]}.{#G1=[#P]|3[#Q][$a],#G2=[$a][#S][$a]}.'
     '{#P=[$][#p1][$],#Q=[$][#q1][#q2][$b],#S=[$b][#s1][$b]}',
     '{[#P]|3[#Q][#S][#Q][#P]|3}.{#P=[$][#p1][$],#Q=[$][#q1][#q2][$b],#S=[$b][#s1][$b]}', False, 'same'),
]


def layered_cases(tier, seed):
    for cid, s, flat, aa, *more in LAYERED_HAND:
        i = s.index('}.{')
        c = {'id': 'layered-hand/' + cid, 'base': None, 'base_str': s[:i + 1], 'blocks': _split_blocks(s[i + 2:]),
             'all_atom': aa, 'legacy': True, 'valid': True, 'design': 'hand', 'bonds': None, 'tags': ['layered', 'hand']}
        if flat:
            j = flat.index('}.{')
            c['flat'] = {'base': None, 'base_str': flat[:j + 1], 'blocks': _split_blocks(flat[j + 2:])}
        if 'same' in more:
            c['same_molecule'] = True
        yield c
    # exhaustive part: every connected graph up to N nodes, 'unique' design at the bottom, seeded by the case index
    max_n = 4 if tier == 'quick' else 5
    reps = 2 if tier == 'quick' else 4
    for n, edges0 in connected_graphs(max_n, 2):
        m = len(edges0)
        variants = [tuple([1] * m)] + [tuple(2 if j == i else 1 for j in range(m)) for i in range(min(m, 2))]
        for orders in variants:
            edges = [(u, v, o) for (u, v), o in zip(edges0, orders)]
            sid = 'g%d_%s' % (n, ''.join('%d%d%d' % e for e in edges))
            for all_atom in (True, False):
                for r in range(reps):
                    rng = random.Random('lay|%s|%s|%d' % (sid, all_atom, r))
                    res = design_unique(rng, n, edges, all_atom, leftovers=(r % 2 == 1))
                    if res is None:
                        continue
                    names, block, _ = res
                    levels = 1 if (n < 4 or r % 2 == 0) else 2
                    c = layered_from_two_level(rng, names, edges, block, all_atom, levels, '%s.%d' % (sid, r))
                    if c:
                        yield c
    # polymers with repeated names and directed descriptors, grouped regularly
    yield from layered_polymers(tier)
    # seeded random part
    rng = random.Random(seed * 7919 + 3)
    for i in range(60 if tier == 'quick' else 3000):
        n = rng.randint(4, 9)
        edges = [(rng.randrange(j), j) for j in range(1, n)]
        for _ in range(rng.choice((0, 0, 1))):
            u, v = sorted(rng.sample(range(n), 2))
            if (u, v) not in edges:
                edges.append((u, v))
        edges = [(u, v, rng.choice((1, 1, 1, 2))) for u, v in edges]
        aa = rng.random() < 0.6
        res = design_unique(rng, n, edges, aa)
        if res is None:
            continue
        names, block, _ = res
        c = layered_from_two_level(rng, names, edges, block, aa, rng.choice((1, 2, 2, 3)), 'r%d_%d' % (seed, i))
        if c:
            yield c


def layered_polymers(tier):
    """Regular groupings with REPEATED intermediate fragment names: a chain of k*b units M, grouped into k blocks
    of b units (block fragment `[<][#M]...[#M][>]`), optionally grouped again."""
    sets = [('aa', True, '#M=[>]CC(C)[<]'), ('aa2', True, '#M=[>]COC[<]'), ('cg', False, '#M=[>][#m1][#m2]([#m3])[<]')]
    for fid, aa, fm in sets:
        for k, b in ((2, 2), (3, 2), (2, 3)) if tier == 'quick' else ((2, 2), (3, 2), (2, 3), (4, 2), (3, 3), (2, 4)):
            n = k * b
            flat = {'base': {'nodes': [[i, 'M'] for i in range(n)], 'edges': [[i, i + 1, 1] for i in range(n - 1)]},
                    'base_str': '{[#M]|%d}' % n, 'blocks': ['{%s}' % fm]}
            blk = '#B=[<]' + '[#M]' * (b - 1) + '[#M][>]'
            yield {'id': 'layered-poly/%s/%dx%d' % (fid, k, b), 'base': {'nodes': [[i, 'B'] for i in range(k)],
                                                                         'edges': [[i, i + 1, 1] for i in range(k - 1)]},
                   'base_str': '{[#B]|%d}' % k, 'blocks': ['{%s}' % blk, '{%s}' % fm], 'all_atom': aa, 'legacy': True,
                   'valid': True, 'design': 'layered', 'bonds': None, 'tags': ['layered', 'repeated-names', 'multiplied'],
                   'flat': flat}
            if k % 2 == 0:
                sup = '#S=[<][#B][#B][>]'
                yield {'id': 'layered-poly/%s/%dx%d/2' % (fid, k, b),
                       'base': {'nodes': [[i, 'S'] for i in range(k // 2)], 'edges': [[i, i + 1, 1] for i in range(k // 2 - 1)]},
                       'base_str': '{[#S]|%d}' % (k // 2) if k > 2 else '{[#S]}',
                       'blocks': ['{%s}' % sup, '{%s}' % blk, '{%s}' % fm], 'all_atom': aa, 'legacy': True, 'valid': True,
                       'design': 'layered', 'bonds': None, 'tags': ['layered', 'repeated-names', 'multiplied'], 'flat': flat}


# =========================================================================================== stereo family
# A stereo molecule is typed in as a token list; cuts are placed between tokens by the generator.
#   atoms:  [element text, {annotation}]      bonds: parent index, order, slash mark ('/', '\\' or '')
# Model: a tree (no rings) with atoms in SMILES order; atom i > 0 has parent p(i) < i, bond order, and an optional
# direction mark written on that bond.  Rendering a fragment = DFS over its own atoms.
STEREO_MOLS = {
    # name: [(symbol, parent, order, mark, chiral)]
    'dif-trans': [('F', None, 0, '', None), ('C', 0, 1, '/', None), ('C', 1, 2, '', None), ('Cl', 2, 1, '/', None)],
    'dif-cis': [('F', None, 0, '', None), ('C', 0, 1, '/', None), ('C', 1, 2, '', None), ('Cl', 2, 1, '\\', None)],
    'dif-cis2': [('F', None, 0, '', None), ('C', 0, 1, '\\', None), ('C', 1, 2, '', None), ('Cl', 2, 1, '/', None)],
    'branch-first': [('C', None, 0, '', None), ('C', 0, 1, '', None), ('F', 1, 1, '/', None), ('C', 1, 2, '', None),
                     ('F', 3, 1, '\\', None), ('C', 3, 1, '', None), ('O', 5, 1, '', None)],
    'branch-cis': [('C', None, 0, '', None), ('C', 0, 1, '', None), ('F', 1, 1, '/', None), ('C', 1, 2, '', None),
                   ('Cl', 3, 1, '/', None), ('C', 3, 1, '', None), ('N', 5, 1, '', None)],
    'diene': [('C', None, 0, '', None), ('C', 0, 1, '\\', None), ('C', 1, 2, '', None), ('C', 2, 1, '/', None),
              ('C', 3, 2, '', None), ('C', 4, 1, '/', None), ('O', 5, 1, '', None)],
    'long': [('O', None, 0, '', None), ('C', 0, 1, '', None), ('C', 1, 1, '', None), ('C', 2, 1, '/', None), ('C', 3, 2, '', None),
             ('Br', 4, 1, '/', None), ('C', 3, 1, '', None), ('N', 6, 1, '', None)],
    'chiral-ez': [('N', None, 0, '', None), ('C', 0, 1, '', 'R'), ('F', 1, 1, '', None), ('C', 1, 1, '', None), ('C', 3, 1, '/', None),
                  ('C', 4, 2, '', None), ('Cl', 5, 1, '\\', None)],
    'chiral2': [('O', None, 0, '', None), ('C', 0, 1, '', 'S'), ('C', 1, 1, '', None), ('C', 1, 1, '', 'R'), ('N', 3, 1, '', None),
                ('C', 3, 1, '', None), ('F', 5, 1, '', None)],
    'trisub': [('F', None, 0, '', None), ('C', 0, 1, '/', None), ('Cl', 1, 1, '/', None), ('C', 1, 2, '', None), ('Br', 3, 1, '/', None),
               ('C', 3, 1, '', None)],
    'tail-marks': [('N', None, 0, '', None), ('C', 0, 1, '', None), ('C', 1, 1, '', None), ('C', 2, 2, '', None), ('F', 2, 1, '\\', None),
                   ('Cl', 3, 1, '/', None)],
    'alanine': [('C', None, 0, '', None), ('C', 0, 1, '', 'S'), ('N', 1, 1, '', None), ('C', 1, 1, '', None), ('O', 3, 2, '', None),
                ('O', 3, 1, '', None)],
}


def _stereo_children(mol):
    ch = {i: [] for i in range(len(mol))}
    for i, a in enumerate(mol):
        if a[1] is not None:
            ch[a[1]].append(i)
    return ch


def stereo_expected(mol):
    """By construction (OpenSMILES): for a double bond a1=a2 with a substituent l1 on a1 and l2 on a2 whose bonds
    carry marks: turn each mark into 'direction of the bond seen from the double-bond atom towards the substituent'
    ('/' written after the double-bond atom = up, '\\' = down; a mark written BEFORE the double-bond atom, i.e. on
    the bond from a substituent that precedes it, is seen reversed).  Same direction = cis, opposite = trans."""
    out = {}
    n = len(mol)

    def seen_from(anchor, lig):
        # mark on the bond anchor-lig; the bond is stored on the child
        child, parent = (lig, anchor) if mol[lig][1] == anchor else (anchor, lig)
        if mol[child][1] != parent:
            return None
        mark = mol[child][3]
        if not mark:
            return None
        up = (mark == '/')
        # written parent(mark)child: direction as seen from the parent; seen from the child it is reversed
        return up if parent == anchor else (not up)
    for i in range(n):
        p = mol[i][1]
        if p is None or mol[i][2] != 2:
            continue
        a1, a2 = p, i
        nb = {a: [j for j in range(n) if (mol[j][1] == a or mol[a][1] == j) and j not in (a1, a2)] for a in (a1, a2)}
        for l1 in nb[a1]:
            for l2 in nb[a2]:
                d1, d2 = seen_from(a1, l1), seen_from(a2, l2)
                if d1 is None or d2 is None:
                    continue
                rel = 'cis' if d1 == d2 else 'trans'
                out[(l1, a1, a2, l2)] = rel
    return out


def stereo_reference_graph(mol):
    g = nx.Graph()
    for i, a in enumerate(mol):
        g.add_node(i, element=a[0], chiral=a[4])
        if a[1] is not None:
            g.add_edge(a[1], i, order=a[2])
    return g


def stereo_fragments(mol, cuts):
    """Cut the bonds (child indices in `cuts`).  Returns [(atoms of the fragment in SMILES order, text)] in the
    order of their first atom, plus the fragment-level edges [(fa, fb)].  A cut bond of order o between parent P and
    child C is written `P<sym>[$L]` resp. `[$L]<sym>C...`; a direction mark on a cut bond is written on both sides
    (`P/[$L]` and `[$L]/C`), as in the repo's own test.  Labels are unique per cut."""
    ch = _stereo_children(mol)
    n = len(mol)
    root_of = {}
    roots = [0] + sorted(cuts)
    labels = _labels()
    lab = {c: next(labels) for c in sorted(cuts)}

    def atom_text(i):
        sym, _, _, _, chir = mol[i]
        if chir:
            return '[%s;x=%s]' % (sym, chir)
        return sym

    def emit(i, frag):
        frag.append(i)
        s = atom_text(i)
        # descriptors for cut children directly behind the atom
        kids_cut = [c for c in ch[i] if c in cuts]
        kids = [c for c in ch[i] if c not in cuts]
        for c in kids_cut:
            s += mol[c][3] + ('=' if mol[c][2] == 2 else '') + '[$%s]' % lab[c]
        for c in kids[:-1]:
            s += '(' + mol[c][3] + ('=' if mol[c][2] == 2 else '') + emit(c, frag) + ')'
        if kids:
            c = kids[-1]
            s += mol[c][3] + ('=' if mol[c][2] == 2 else '') + emit(c, frag)
        return s
    frags = []
    for r in roots:
        atoms = []
        body = emit(r, atoms)
        if r in cuts:
            body = '[$%s]' % lab[r] + ('=' if mol[r][2] == 2 else '') + mol[r][3] + body
        frags.append((atoms, body))
        for a in atoms:
            root_of[a] = len(frags) - 1
    fedges = sorted((root_of[mol[c][1]], root_of[c]) for c in cuts)
    return frags, fedges


def stereo_cut_ok(mol, cuts):
    """Admissible cut sets (property quantifier: each slash mark stays next to an atom of its own fragment; scope
    decision: a descriptor with a bond symbol AND a mark is written mark-then-symbol only for single bonds, so a
    cut double bond never carries a mark itself - marks sit on single bonds by definition)."""
    for c in cuts:
        if mol[c][2] == 2 and mol[c][3]:
            return False
    return True


def stereo_cases(tier, seed):
    max_cuts = 2 if tier == 'quick' else 3
    for name, mol in STEREO_MOLS.items():
        n = len(mol)
        for k in range(0, max_cuts + 1):
            for cuts in itertools.combinations(range(1, n), k):
                if not stereo_cut_ok(mol, cuts):
                    continue
                yield {'id': 'stereo/%s/%s' % (name, '-'.join(map(str, cuts)) or 'uncut'), 'mol': name, 'cuts': list(cuts)}


# =========================================================================================== falsy annotations (C02)
ZERO_HAND = [
    ('zero/h-on-weighted-o', '{[#A][#B]}.{#A=[O;0.5]([H;0])C[$],#B=[$]CO}', True),
    ('zero/h-repeated', '{[#M]|3}.{#M=[$]C([H;0])C[$]}', True),
    ('zero/h-and-heavy', '{[#A][#B][#A]}.{#A=[O;0.5]([H;0])[C;0][$],#B=[$]C([H;0])[$]}', True),
    ('zero/heavy-only', '{[#A][#B]}.{#A=[OH;0]C[$],#B=[$][CH2;0]C}', True),
    ('zero/cg-weight', '{[#A][#B]}.{#A=[#a;w=0][#b][$],#B=[$][#c;0;0][#d;w=0.5]}', False),
    ('zero/cg-charge-weight', '{[#A]|2}.{#A=[>][#a;q=0;w=0][#b;1;0][<]}', False),
]


def zero_weight_cases(tier):
    """Two-level strings whose fragments annotate explicit hydrogens and heavy atoms with weight 0 (a falsy value):
    typed-in strings, and the 'unique' design on small base graphs with bodies from AA_ZERO only."""
    for cid, s, aa in ZERO_HAND:
        i = s.index('}.{')
        yield {'id': 'hand/' + cid, 'base': None, 'base_str': s[:i + 1], 'blocks': _split_blocks(s[i + 2:]),
               'all_atom': aa, 'legacy': True, 'valid': True, 'design': 'hand', 'bonds': None, 'tags': ['zero-weight']}
    for n, edges0 in connected_graphs(3 if tier == 'quick' else 4):
        edges = [(u, v, 1) for u, v in edges0]
        sid = 'z%d_%s' % (n, ''.join('%d%d%d' % e for e in edges))
        for r in range(4 if tier == 'quick' else 8):
            rng = random.Random('zero|%s|%d' % (sid, r))
            c = _emit_two_level('zero', sid + '.%d' % r, n, edges, 'unique', True, True, rng, tags=['zero-weight'], pool=AA_ZERO)
            if c:
                yield c


# =========================================================================================== shared atoms (C02)
# One design = fragments written as linear chains of atoms + the pairs of atoms that are ONE atom (`!`, a label of its
# own per pair) + ordinary bonds (`$`, a label of its own per bond).  The fine graph is known by construction: its
# atoms are the classes of template atoms under "is one atom with", an atom belongs to exactly the coarse nodes whose
# fragment contains a template atom of its class, its bonds are the template bonds plus the ordinary bonds.
# Atoms: all-atom symbol / coarse name; merged atoms have the same symbol and name (C / s).  No aromatic atoms
# (finding C10-4/5), no annotations on shared atoms, no explicit hydrogens.
_SH_CG = {'C': 'c', 'O': 'o', 'N': 'n', 'F': 'f', 'S': 'u'}
SHARED_DESIGNS = {
    # name: (fragments [(name, atoms)], shares [((frag, atom), (frag, atom))], bonds [((frag, atom), (frag, atom))],
    #        extra zero-order base edges [(frag, frag)])
    'pair': ([('A', 'OCC'), ('B', 'CCN')], [((0, 2), (1, 0))], [], []),
    'pair-mid': ([('A', 'OCC'), ('B', 'NCF')], [((0, 1), (1, 1))], [], []),
    'chain2': ([('A', 'OCC'), ('B', 'CNC'), ('D', 'CCF')], [((0, 2), (1, 0)), ((1, 2), (2, 0))], [], []),
    'hub-front': ([('H', 'CCN'), ('A', 'OCC'), ('B', 'FCC')], [((0, 0), (1, 2)), ((0, 0), (2, 2))], [], []),
    'hub-back': ([('H', 'NCC'), ('A', 'OCC'), ('B', 'CCF')], [((0, 2), (1, 2)), ((0, 2), (2, 0))], [], []),
    'hub-front-v': ([('H', 'CCN'), ('A', 'OCC'), ('B', 'FCC')], [((0, 0), (1, 2)), ((0, 0), (2, 2))], [], [(1, 2)]),
    'hub-bonded': ([('H', 'CCN'), ('A', 'CC'), ('B', 'CCC')], [((0, 0), (1, 1)), ((0, 0), (2, 2))], [((1, 0), (2, 0))], []),
    'hub-bonded-back': ([('H', 'NCC'), ('A', 'CC'), ('B', 'COC')], [((0, 2), (1, 1)), ((0, 2), (2, 2))], [((1, 0), (2, 0))], []),
    'pairwise': ([('A', 'OCC'), ('B', 'NCC'), ('D', 'CCF')], [((0, 2), (1, 2)), ((0, 2), (2, 0)), ((1, 2), (2, 0))], [], []),
    'four': ([('H', 'C'), ('A', 'OC'), ('B', 'NC'), ('D', 'CF')], [((0, 0), (1, 1)), ((0, 0), (2, 1)), ((0, 0), (3, 0))], [], []),
    'four-chain': ([('A', 'OC'), ('B', 'C'), ('D', 'CN'), ('E', 'CF')], [((0, 1), (1, 0)), ((1, 0), (2, 0)), ((2, 0), (3, 0))], [], []),
    'two-hubs': ([('H', 'CCC'), ('A', 'OC'), ('B', 'NC'), ('D', 'CF'), ('E', 'CS')],
                 [((0, 0), (1, 1)), ((0, 0), (2, 1)), ((0, 2), (3, 0)), ((0, 2), (4, 0))], [], []),
}


def _shared_case(dname, perm, all_atom, lead):
    frags, shares, bonds, zero = SHARED_DESIGNS[dname]
    n = len(frags)
    labels = _labels()
    descs = {i: {} for i in range(n)}
    count = {}
    for kind, pairs in (('!', shares), ('$', bonds)):
        for (i, a), (j, b) in pairs:
            lab = next(labels)
            descs[i].setdefault(a, []).append('[%s%s]' % (kind, lab))
            descs[j].setdefault(b, []).append('[%s%s]' % (kind, lab))
            k = tuple(sorted((i, j)))
            count[k] = count.get(k, 0) + 1
    edges = [(i, j, c) for (i, j), c in sorted(count.items())] + [(i, j, 0) for i, j in zero]
    # classes of template atoms
    parent = {(i, a): (i, a) for i, (_, atoms) in enumerate(frags) for a in range(len(atoms))}

    def find(x):
        while parent[x] != x:
            x = parent[x]
        return x
    for x, y in shares:
        parent[find(y)] = find(x)
    shared_atoms = {x for pair in shares for x in pair}
    defs = []
    for i, (name, atoms) in enumerate(frags):
        t = ''
        for a, sym in enumerate(atoms):
            if all_atom:
                tok = sym
            else:
                tok = '[#%s]' % ('s' if (i, a) in shared_atoms else '%s%d%d' % (_SH_CG[sym], i, a))
            d = ''.join(descs[i].get(a, []))
            t += (d + tok) if (a == 0 and lead) else (tok + d)
        defs.append('#%s=%s' % (name, t))
    ids = list(perm)
    text, app = render_graph(ids, edges, {i: '[#%s]' % frags[i][0] for i in ids})
    base = relabel_by_appearance([(i, frags[i][0]) for i in range(n)], edges, app)
    key = {u: k for k, u in enumerate(app)}
    classes = {}
    for x in parent:
        classes.setdefault(find(x), []).append(x)
    roots = sorted(classes)
    index = {r: k for k, r in enumerate(roots)}
    atoms_out = []
    for r in roots:
        i, a = r
        sym = frags[i][1][a]
        name = sym if all_atom else ('s' if r in shared_atoms else '%s%d%d' % (_SH_CG[sym], i, a))
        atoms_out.append({'name': name, 'members': sorted(key[j] for j, _ in classes[r]),
                          'origin': sorted([key[j], b] for j, b in classes[r])})
    ebonds = set()
    for i, (_, atoms) in enumerate(frags):
        for a in range(len(atoms) - 1):
            ebonds.add(tuple(sorted((index[find((i, a))], index[find((i, a + 1))]))))
    for x, y in bonds:
        ebonds.add(tuple(sorted((index[find(x)], index[find(y)]))))
    return {'id': 'shared/%s/%s/%s/%s' % (dname, ''.join(map(str, perm)), 'aa' if all_atom else 'cg', 'lead' if lead else 'trail'),
            'base': base, 'base_str': '{' + text + '}', 'blocks': ['{' + ','.join(defs) + '}'], 'all_atom': all_atom,
            'legacy': True, 'valid': True, 'design': 'shared', 'bonds': None, 'tags': ['shared'],
            'expect': {'atoms': atoms_out, 'bonds': sorted([u, v, 1] for u, v in ebonds)}}


def shared_cases(tier):
    """Every design x every order of the coarse nodes in the base string (the order decides which of two merged atoms
    survives and in which order merges happen) x all-atom / coarse x descriptors of a first atom written in front of it
    or behind it.  Quick: all orders for designs with <= 3 fragments, 8 seeded ones above."""
    seen = set()
    for dname, (frags, _, _, _) in SHARED_DESIGNS.items():
        n = len(frags)
        perms = list(itertools.permutations(range(n)))
        if n > 3:
            rng = random.Random('shared|' + dname)
            rng.shuffle(perms)
            perms = perms[:8 if tier == 'quick' else 40]
        for perm in perms:
            for all_atom in (True, False):
                for lead in (False, True):
                    try:
                        c = _shared_case(dname, perm, all_atom, lead)
                    except ValueError:
                        continue
                    k = (full_string(c), all_atom)
                    if k not in seen:
                        seen.add(k)
                        yield c


# =========================================================================================== layered: reused names, `!` on two levels (C06)
LAYERED_REUSE_HAND = [
    ('reuse/first-member-cg', '{[#A][#B]}.{#A=[#A][#X][>],#B=[<][#Y]}.{#A=[#a1][#a2][>],#X=[<][#x][>],#Y=[<][#y]}',
     '{[#A][#X][#Y]}.{#A=[#a1][#a2][>],#X=[<][#x][>],#Y=[<][#y]}', False),
    ('reuse/first-member-aa', '{[#A][#B]}.{#A=[#A][#X][>],#B=[<][#Y]}.{#A=CC[>],#X=[<]CO[>],#Y=[<]N}',
     '{[#A][#X][#Y]}.{#A=CC[>],#X=[<]CO[>],#Y=[<]N}', True),
    ('reuse/pass-through-aa', '{[#L][#W]}.{#L=[#B][#C][>],#W=[<][#W]}.{#B=CC[>],#C=[<]C[>],#W=[<]O}',
     '{[#B][#C][#W]}.{#B=CC[>],#C=[<]C[>],#W=[<]O}', True),
    ('reuse/pass-through-cg', '{[#L][#W]}.{#L=[#B][#C][>],#W=[<][#W]}.{#B=[#b1][#b2][>],#C=[<][#c][>],#W=[<][#w1]=[#w2]}',
     '{[#B][#C][#W]}.{#B=[#b1][#b2][>],#C=[<][#c][>],#W=[<][#w1]=[#w2]}', False),
    ('reuse/three-levels', '{[#A][#B]}.{#A=[#A][#B][>],#B=[<][#C]}.{#A=[#A][>a],#B=[<a][#B][#D][>],#C=[<][#C]}.'
     '{#A=OC[>],#B=[<]CC[>],#C=[<]CN,#D=[<]C(F)[>]}',
     '{[#A][#B][#D][#C]}.{#A=OC[>],#B=[<]CC[>],#C=[<]CN,#D=[<]C(F)[>]}', True),
]


def layered_reuse_cases(tier):
    """Layered strings in which a fragment NAME is defined on more than one level: every group of an intermediate level
    is called like its first member (so a bead keeps its name while it is refined, and a bead handed through a level
    unchanged reads `#N2=[#N2]...`); otherwise built exactly like layered_cases (one description -> grouped + flat)."""
    for cid, s, flat, aa in LAYERED_REUSE_HAND:
        i, j = s.index('}.{'), flat.index('}.{')
        yield {'id': 'layered-hand/' + cid, 'base': None, 'base_str': s[:i + 1], 'blocks': _split_blocks(s[i + 2:]),
               'all_atom': aa, 'legacy': True, 'valid': True, 'design': 'hand', 'bonds': None, 'tags': ['layered', 'hand', 'reused-names'],
               'flat': {'base': None, 'base_str': flat[:j + 1], 'blocks': _split_blocks(flat[j + 2:])}}
    max_n = 4 if tier == 'quick' else 5
    for n, edges0 in connected_graphs(max_n, 2):
        edges = [(u, v, 1) for u, v in edges0]
        sid = 'g%d_%s' % (n, ''.join('%d%d%d' % e for e in edges))
        for all_atom in (True, False):
            for r in range(2 if tier == 'quick' else 4):
                rng = random.Random('reuse|%s|%s|%d' % (sid, all_atom, r))
                res = design_unique(rng, n, edges, all_atom, leftovers=False)
                if res is None:
                    continue
                names, block, _ = res
                levels = 1 if (n < 4 or r % 2 == 0) else 2
                c = layered_from_two_level(rng, names, edges, block, all_atom, levels, 'reuse-%s.%d' % (sid, r), reuse_names=True)
                if c:
                    c['tags'] = c['tags'] + ['reused-names']
                    yield c


# beads of the bottom level for the `!`-on-two-levels family: left end atom, middle atoms, right end atom
_LS_MIDS = [['O'], ['N'], ['S'], ['C', 'O'], ['C', 'N']]


def _chain_groupings(n):
    """Covers of the chain 0..n-1 by consecutive segments; two consecutive segments either share their boundary bead
    ('!') or are disjoint ('cut').  Yields ([segment, ...], [boundary kind, ...])."""
    def rec(start, must_extend_past):
        for end in range(max(start, must_extend_past), n):
            seg = list(range(start, end + 1))
            if end == n - 1:
                yield [seg], []
                continue
            if len(seg) >= 2:
                for segs, kinds in rec(end, end + 1):
                    yield [seg] + segs, ['!'] + kinds
            for segs, kinds in rec(end + 1, end + 1):
                yield [seg] + segs, ['cut'] + kinds
    yield from rec(0, 0)


def _layered_shared_case(n, links, segs, kinds, all_atom, sizes, cid):
    """links[i]: '!' (beads i and i+1 share an atom) or 'b' (bonded); segs / kinds: the top grouping.  sizes[i] = number
    of extra leading atoms of bead i (varies the atom indices at which the merges happen)."""
    bead = ['B%d' % i for i in range(n)]
    defs = []
    for i in range(n):
        syms = ['C'] * sizes[i] + ['C'] + _LS_MIDS[i % len(_LS_MIDS)] + ['C']
        left = '' if i == 0 else ('[!s%d]' % (i - 1) if links[i - 1] == '!' else '[<b%d]' % (i - 1))
        right = '' if i == n - 1 else ('[!s%d]' % i if links[i] == '!' else '[>b%d]' % i)
        toks = []
        for a, sym in enumerate(syms):
            if all_atom:
                toks.append(sym)
            else:
                nm = '%s%d%d' % (_SH_CG[sym], i, a)
                if a == len(syms) - 1 and i < n - 1 and links[i] == '!':
                    nm = 's%d' % i
                if a == 0 and i > 0 and links[i - 1] == '!':
                    nm = 's%d' % (i - 1)
                toks.append('[#%s]' % nm)
        # a bead has >= 3 atoms: the left descriptor is written in front of the first atom (and belongs to it), the right
        # one behind the last atom
        toks[0] = left + toks[0]
        toks[-1] = toks[-1] + right
        defs.append('#%s=%s' % (bead[i], ''.join(toks)))
    bottom = '{' + ','.join(defs) + '}'
    gdefs = []
    gname = ['G%d' % g for g in range(len(segs))]
    for g, seg in enumerate(segs):
        t = ''
        for m in seg:
            t += '[#%s]' % bead[m]
            if m == seg[0] and g > 0:
                t += '[!t%d]' % (g - 1) if kinds[g - 1] == '!' else '[<c%d]' % (g - 1)
            if m == seg[-1] and g < len(segs) - 1:
                t += '[!t%d]' % g if kinds[g] == '!' else '[>c%d]' % g
        gdefs.append('#%s=%s' % (gname[g], t))
    middle = '{' + ','.join(gdefs) + '}'
    chain = lambda k: [[i, i + 1, 1] for i in range(k - 1)]   # noqa
    return {'id': 'layered-shared/%s/%s' % (cid, 'aa' if all_atom else 'cg'),
            'base': {'nodes': [[g, gname[g]] for g in range(len(segs))], 'edges': chain(len(segs))},
            'base_str': '{' + ''.join('[#%s]' % x for x in gname) + '}', 'blocks': [middle, bottom], 'all_atom': all_atom,
            'legacy': True, 'valid': True, 'design': 'layered', 'bonds': None, 'tags': ['layered', 'shared'],
            'flat': {'base': {'nodes': [[i, bead[i]] for i in range(n)], 'edges': chain(n)},
                     'base_str': '{' + ''.join('[#%s]' % x for x in bead) + '}', 'blocks': [bottom]}}


def layered_shared_cases(tier):
    """`!` on two consecutive levels: a chain of 3..5 beads whose neighbours either share an end atom or are bonded
    (bottom level), covered by segments that share their boundary bead or are disjoint (intermediate level).  The
    flat string is the bead chain itself with the same bottom fragments; both are written from the same description.
    Only groupings with a shared bead and bottom levels with a shared atom are generated (the rest is layered_cases)."""
    for n in (3, 4, 5):
        groupings = [(s, k) for s, k in _chain_groupings(n) if '!' in k]
        for gi, (segs, kinds) in enumerate(groupings):
            if n == 5 and tier == 'quick' and gi % 3:
                continue
            for li, links in enumerate(itertools.product('!b', repeat=n - 1)):
                if '!' not in links:
                    continue
                if n >= 4 and tier == 'quick' and (li + gi) % 2:
                    continue
                for sv, sizes in enumerate(([0] * n, [1] + [0] * (n - 1), [(i + 1) % 2 for i in range(n)])):
                    if n == 5 and sv != 1:
                        continue
                    for all_atom in (True, False):
                        if n >= 4 and (sv + li + gi + all_atom) % 2 and tier == 'quick':
                            continue
                        yield _layered_shared_case(n, links, segs, kinds, all_atom, sizes,
                                                   'n%d.g%d.%s.z%d' % (n, gi, ''.join(links), sv))


# =========================================================================================== harness helpers
def base_graph_for(cg, case, keys=None):
    """The base graph as a networkx graph built directly from the intended description (no reader involved).
    keys: optional list, keys[i] replaces key i and the nodes are inserted in the order given by `keys`' own
    'insertion' permutation (see keyed_variants)."""
    base = case['base']
    g = nx.Graph()
    order = list(range(len(base['nodes'])))
    kmap = {i: i for i in order}
    if keys is not None:
        kmap = {i: k for i, k in enumerate(keys['keys'])}
        order = keys.get('insertion', order)
    names = dict(map(tuple, base['nodes']))
    for i in order:
        g.add_node(kmap[i], fragname=names[i])
    for u, v, o in base['edges']:
        g.add_edge(kmap[u], kmap[v], order=o)
    return g


def read_templates(cg, case):
    """One template dict per fragment block, read independently of the resolver."""
    out = []
    for i, blk in enumerate(case['blocks']):
        aa = case['all_atom'] and i == len(case['blocks']) - 1
        out.append(cg.read_fragments(blk, all_atom=aa))
    return out


def make_resolver(cg, case, how='string', keys=None, fragment_dicts=None):
    """how: 'string' (from_string), 'graph' (from_graph with the reader's base graph), 'graph-own' (from_graph with a
    graph built from the intended description, optionally re-keyed), 'dicts' (from_fragment_dicts)."""
    R = cg.MoleculeResolver
    kw = dict(last_all_atom=case['all_atom'], legacy=case['legacy'])
    if how == 'string':
        return R.from_string(full_string(case), **kw)
    if how == 'graph':
        return R.from_graph('.'.join(case['blocks']), cg.read_cgsmiles(case['base_str']), **kw)
    if how == 'graph-own':
        return R.from_graph('.'.join(case['blocks']), base_graph_for(cg, case, keys), **kw)
    if how == 'dicts':
        fd = fragment_dicts if fragment_dicts is not None else read_templates(cg, case)
        return R.from_fragment_dicts(case['base_str'], fd, **kw)
    raise ValueError(how)


def reader_agrees(cg, case):
    """True when read_cgsmiles returns the intended base graph (otherwise the case is outside the resolver
    properties: reading the base graph is C04 / C05)."""
    if not case.get('base'):
        return True
    g = cg.read_cgsmiles(case['base_str'])
    ig = intended_graph(case['base'])
    return (list(g.nodes) == list(ig.nodes)
            and all(g.nodes[n].get('fragname') == ig.nodes[n]['fragname'] for n in ig.nodes)
            and {frozenset(e) for e in g.edges} == {frozenset(e) for e in ig.edges}
            and all(g.edges[e].get('order') == ig.edges[e]['order'] for e in ig.edges))


def keyed_variants(case):
    """Re-keyed base graphs for from_graph: gapped ascending keys, keys 0..n-1 inserted in reverse order, descending
    keys.  Integer keys only: the resolver does arithmetic on them and the docs show integer keys."""
    n = len(case['base']['nodes'])
    if n < 2:
        return
    yield 'gapped', {'keys': [3 * i + 2 for i in range(n)]}
    yield 'reversed-insertion', {'keys': list(range(n)), 'insertion': list(range(n))[::-1]}
    yield 'descending', {'keys': [n - 1 - i for i in range(n)]}
