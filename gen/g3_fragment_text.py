"""
G3 -- fragment text with inserted bonding descriptors (DESIGN.md section 3.2).

A *skeleton* is a sequence of tokens of a valid SMILES / coarse (CGsmiles) fragment, written as one
string of space separated tokens (no token contains a space, so the string is cheap to pickle and
readable in a replay file):

    a:<sym>                bare atom, e.g. a:C a:Cl a:c a:*
    A:<body>[:<ann>...]    bracket atom / coarse node, rendered '[' body (';' ann)* ']',
                           e.g. A:NH3+  A:C:0.5  A:O:q=4:p=s  A:#TC4  A:#OT1:w=0.5
    b:<sym>                bond symbol of the skeleton ( . - = # $ : )
    (   )                  branch open / close
    r:<sym?><marker>       ring closure marker on the preceding atom, with an optional ring-bond symbol,
                           e.g. r:1  r:=1  r:%12  r:#%12
    e:/  e:\\               cis/trans mark

An *insertion* is [slot, kind, label, sym]: `slot` is the index of the token after which the descriptor is
written (an atom, a ring marker or a branch close), or -1 for a leading descriptor (before the first atom).
`kind` is one of $ > < !, `label` alphanumeric or '', `sym` one of '' . - = # $ (the optional bond order
symbol).  Descriptors in the same slot are written in list order.  Conventions (docs/source/syntax/
fragments.rst, cgsmiles/tests/test_cgsmile_parsing.py::test_strip_bonding_descriptors): after an atom the
order symbol is written BEFORE the descriptor (`C=[$]`), for a leading descriptor AFTER it (`[$]=C`).

`render(skeleton, insertions)` returns everything that is known BY CONSTRUCTION:
    text   the fragment text with descriptors, annotations and marks
    clean  the text without descriptors, annotations and cis/trans marks
    desc   {atom index: [kind + label + str(order), ...]} in order of appearance
    ann    {atom index: expected annotation dict} for annotated atoms only
    ez     {atom index: mark} (None when some atom is touched by two different marks: not predicted)
Atom indices count atoms / nodes in order of appearance (0-based).  A descriptor belongs to the atom it is
written after; after a ring marker to the atom carrying the marker; after a branch close to the atom the
branch is anchored on (`CC(C)[$]` -> atom 1, as in the PMMA example of the tests); a leading one to atom 0.

Nothing in this module imports cgsmiles.
"""
import functools
import itertools
import random

SYM_ORDER = {'': 1, '-': 1, '=': 2, '#': 3, '$': 4, '.': 0}
KINDS = ('$', '>', '<', '!')


# --------------------------------------------------------------------------------------------------
# tokens
# --------------------------------------------------------------------------------------------------
def annotation_spec(entries, coarse=False):
    """Expected annotation dict of a fragment atom (independent of cgsmiles.dialects).

    Written from docs/source/syntax/basic_graph_description.rst ("Reserved Annotation Symbols", atomic
    resolution): positional entries bind to w (weight, float, default 1.0) then x (chirality, str, no
    default); `w=`/`x=` keywords are the same parameters; they are reported as 'weight' / 'chiral'; every
    other `key=value` is kept verbatim (string value).
    """
    pos = [e for e in entries if '=' not in e]
    kw = dict(e.split('=') for e in entries if '=' in e)
    names = ['w', 'x']
    bound = {}
    for name, val in zip(names, pos):
        bound[name] = val
    for k, v in kw.items():
        assert k not in bound
        bound[k] = v
    out = {}
    for k, v in bound.items():
        if k not in ('w', 'x'):
            out[k] = v
    out['weight'] = float(bound.get('w', 1.0))
    if 'x' in bound:
        out['chiral'] = bound['x']
    return out


class Skel(object):
    __slots__ = ('tokens', 'src', 'clean', 'owner', 'atoms', 'ann', 'ez', 'slots', 'n_atoms', 'features',
                 'coarse', 'lenient_ann')


@functools.lru_cache(maxsize=4096)
def parse(skeleton):
    """Token string -> Skel (per-token source text, clean text, owner atom of each slot)."""
    sk = Skel()
    toks = skeleton.split(' ')
    sk.tokens = toks
    src, clean, owner = [], [], []
    ann, ez, feats = {}, {}, set()
    lenient = set()
    ez_ok = True
    stack = []
    natoms = 0
    prev = None          # atom the next thing is bonded to / written after
    pending_mark = None
    coarse = False
    for t in toks:
        if t == '(':
            stack.append(prev)
            src.append('('); clean.append('('); owner.append(None)
            feats.add('branch')
        elif t == ')':
            prev = stack.pop()
            src.append(')'); clean.append(')'); owner.append(prev)
        elif t[0] == 'a':
            s = t[2:]
            src.append(s); clean.append(s); owner.append(natoms)
            if len(s) == 2:
                feats.add('two-letter')
            if pending_mark is not None:
                for n in (prev, natoms):
                    if n in ez and ez[n] != pending_mark:
                        ez_ok = False
                    ez[n] = pending_mark
                pending_mark = None
            prev = natoms
            natoms += 1
        elif t[0] == 'A':
            parts = t[2:].split(':')
            body, entries = parts[0], parts[1:]
            src.append('[' + body + ''.join(';' + e for e in entries) + ']')
            clean.append('[' + body + ']')
            owner.append(natoms)
            feats.add('bracket')
            if body.startswith('#'):
                coarse = True
            if entries:
                feats.add('annotation')
                ann[natoms] = annotation_spec(entries)
                if body.startswith('#') and any('=' not in e for e in entries):
                    lenient.add(natoms)
            if pending_mark is not None:
                for n in (prev, natoms):
                    if n in ez and ez[n] != pending_mark:
                        ez_ok = False
                    ez[n] = pending_mark
                pending_mark = None
            prev = natoms
            natoms += 1
        elif t[0] == 'b':
            src.append(t[2:]); clean.append(t[2:]); owner.append(None)
            feats.add('bond-symbol')
        elif t[0] == 'r':
            src.append(t[2:]); clean.append(t[2:]); owner.append(prev)
            feats.add('ring')
            if t[2] not in '0123456789%':
                feats.add('ring-bond-symbol')
            if '%' in t:
                feats.add('%nn')
        elif t[0] == 'e':
            src.append(t[2:]); clean.append(''); owner.append(None)
            feats.add('ez')
            pending_mark = t[2:]
        else:
            raise ValueError('bad token %r' % t)
    assert not stack and natoms > 0
    sk.src, sk.clean, sk.owner = src, clean, owner
    sk.ann, sk.n_atoms = ann, natoms
    sk.ez = ez if ez_ok else None
    sk.atoms = [i for i, t in enumerate(toks) if t[0] in 'aA']
    sk.slots = [-1] + [i for i, t in enumerate(toks) if t[0] in 'aAr' or t == ')']
    sk.features = frozenset(feats)
    sk.coarse = coarse
    sk.lenient_ann = frozenset(lenient)
    return sk


def descriptor_text(kind, label, sym, leading=False):
    d = '[' + kind + label + ']'
    return d + sym if leading else sym + d


def descriptor_value(kind, label, sym):
    return kind + label + str(SYM_ORDER[sym])


def render(skeleton, insertions):
    """(text, clean, desc, ann, ez) for a skeleton with the given insertions -- all by construction."""
    sk = parse(skeleton)
    by_slot = {}
    for slot, kind, label, sym in insertions:
        by_slot.setdefault(slot, []).append((kind, label, sym))
    desc = {}
    out = []
    for kind, label, sym in by_slot.get(-1, ()):
        out.append(descriptor_text(kind, label, sym, leading=True))
        desc.setdefault(0, []).append(descriptor_value(kind, label, sym))
    for i, s in enumerate(sk.src):
        out.append(s)
        if i in by_slot:
            own = sk.owner[i]
            assert own is not None and sk.tokens[i][0] in 'aAr)', 'not a slot: %r' % (sk.tokens[i],)
            for kind, label, sym in by_slot[i]:
                out.append(descriptor_text(kind, label, sym))
                desc.setdefault(own, []).append(descriptor_value(kind, label, sym))
    return ''.join(out), ''.join(sk.clean), desc, sk.ann, sk.ez


# --------------------------------------------------------------------------------------------------
# skeleton families
# --------------------------------------------------------------------------------------------------
# atom spellings: bare one-letter, bare two-letter, aromatic, bracket, bracket + annotations
ATOMS_ATOMISTIC = ['a:C', 'a:Cl', 'a:c', 'A:NH3+', 'A:C:0.5', 'A:O:q=4:p=s', 'A:C:x=R', 'a:Br',
                   'a:N', 'A:O-', 'A:13CH3', 'A:C:1:S', 'A:C:w=0.25:x=S', 'A:H:0.1', 'A:Si', 'a:*', 'a:o',
                   'A:C@H', 'A:C:r=abc']
ATOMS_COARSE = ['A:#A', 'A:#TC4', 'A:#OT1:w=0.5', 'A:#CD1:r=abc', 'A:#OT1:0.5', 'A:#B2:x=S:w=2']

# shapes: x = atom placeholder (filled left to right); everything else is a literal token.
# Atomistic: the bond symbol of a branch follows '(' ; coarse (CGsmiles): it precedes '('.
SHAPES_ATOMISTIC = [
    'x', 'x x', 'x b:= x', 'x x b:# x', 'x b:= x x', 'x b:- x b:. x',
    'x ( x ) x', 'x ( b:= x ) x', 'x ( x ) b:= x', 'x ( x ) ( x ) x', 'x ( x ( x ) ) x', 'x x ( b:= x )',
    'x r:1 x x r:1', 'x r:=1 x x r:=1', 'x r:=1 x x r:1', 'x r:1 x x r:=1', 'x r:%12 x x r:%12',
    'x r:#%12 x x r:%12', 'x r:1 r:2 x x r:1 x r:2', 'x r:1 x ( x ) x r:1', 'x r:=1 x ( x r:=1 ) x',
    'x r:1 r:%10 x x r:=1 x r:%10', 'x b:: x',
]
SHAPES_EZ = ['x e:/ x b:= x e:/ x', 'x x ( e:\\ x ) b:= x', 'x x ( e:/ x ) b:= x ( e:\\ x ) x',
             'x e:\\ x b:= x r:1 x x r:1']
SHAPES_COARSE = [
    'x', 'x x', 'x b:= x', 'x x b:. x', 'x ( x ) x', 'x b:= ( x ) x', 'x ( x ) b:# x', 'x ( x ) ( x ) x',
    'x ( x ( x ) ) x', 'x r:1 x x r:1', 'x r:=1 x x r:1', 'x r:=1 x x r:=1', 'x r:%12 x x r:%12',
    'x r:.1 x ( x ) x r:1',
]


def fill(shape, atoms):
    it = iter(atoms)
    return ' '.join(next(it) if t == 'x' else t for t in shape.split(' '))


def n_placeholders(shape):
    return shape.split(' ').count('x')


def shifted_fillings(shape, atoms, n_fill, step=3):
    """n_fill assignments of spellings to the atom positions; every spelling in atoms[:n_fill] occurs at
    every position once (cyclic shifts), neighbouring positions get different spellings."""
    n = n_placeholders(shape)
    m = len(atoms)
    for s in range(n_fill):
        yield fill(shape, [atoms[(s + i * step) % m] for i in range(n)])


def skeletons(tier):
    """The enumerated skeleton set of a tier: list of (skeleton string, family)."""
    out = []
    if tier == 'quick':
        at, co = ATOMS_ATOMISTIC[:8], ATOMS_COARSE[:4]
        for sh in SHAPES_ATOMISTIC:
            for s in shifted_fillings(sh, at, 8 if n_placeholders(sh) <= 2 else 4):
                out.append((s, 'atomistic'))
        for sh in SHAPES_EZ:
            for s in shifted_fillings(sh, ['a:C', 'a:F', 'a:Cl', 'A:C:x=R', 'a:N'], 2, step=1):
                out.append((s, 'ez'))
        for sh in SHAPES_COARSE:
            for s in shifted_fillings(sh, co, 2 if n_placeholders(sh) > 1 else 4, step=1):
                out.append((s, 'coarse'))
    else:
        at, co = ATOMS_ATOMISTIC, ATOMS_COARSE
        for sh in SHAPES_ATOMISTIC:
            for s in shifted_fillings(sh, at, len(at), step=5):
                out.append((s, 'atomistic'))
        for sh in SHAPES_EZ:
            for s in shifted_fillings(sh, ['a:C', 'a:F', 'a:Cl', 'A:C:x=R', 'a:N', 'a:Br', 'A:CH2'], 7, step=1):
                out.append((s, 'ez'))
        for sh in SHAPES_COARSE:
            for s in shifted_fillings(sh, co, len(co), step=1):
                out.append((s, 'coarse'))
    seen, uniq = set(), []
    for s, fam in out:
        if s not in seen:
            seen.add(s)
            uniq.append((s, fam))
    return uniq


# --------------------------------------------------------------------------------------------------
# descriptor alphabets and insertion enumeration
# --------------------------------------------------------------------------------------------------
LABELS = ('', 'A', '1a')
SYMS = ('', '=', '.', '#', '-', '$')


def alphabet_full():
    return [(k, l, s) for s in SYMS for l in LABELS for k in KINDS]


def alphabet_medium():
    """12 descriptors: every kind, every symbol, labelled and unlabelled."""
    return [('$', '', ''), ('$', 'A', ''), ('>', '', ''), ('<', '1a', ''), ('!', '', ''),
            ('$', '', '='), ('$', 'A', '.'), ('>', '', '#'), ('<', '', '-'), ('!', '', '$'),
            ('>', '1a', '='), ('!', '', '.')]


def alphabet_small():
    return [('$', '', ''), ('>', 'A', '='), ('<', '', '.'), ('!', '1a', '#'), ('$', '', '-'), ('$', 'A', '$')]


def single_insertions(skeleton, alphabet):
    for slot in parse(skeleton).slots:
        for d in alphabet:
            yield [[slot] + list(d)]


def multi_insertions(skeleton, k, alphabet):
    """All sequences of exactly k insertions (slots non-decreasing in text order; within one slot every
    order of the descriptors)."""
    slots = parse(skeleton).slots
    for combo in itertools.combinations_with_replacement(range(len(slots)), k):
        for ds in itertools.product(alphabet, repeat=k):
            yield [[slots[si]] + list(d) for si, d in zip(combo, ds)]


# --------------------------------------------------------------------------------------------------
# seeded random skeletons (beyond the enumerated shapes)
# --------------------------------------------------------------------------------------------------
def random_skeleton(rng, coarse=False, max_atoms=8, ez=False):
    """Random tree of atoms (chain / nested branches) with up to two ring closures between atoms that are
    not bonded otherwise; built top-down, so the token sequence is valid by construction."""
    atoms = ATOMS_COARSE if coarse else ATOMS_ATOMISTIC
    left = [rng.randint(1, max_atoms)]
    parent = {}
    counter = [0]
    bond_syms = ['=', '#', '.', '$', '-'] if coarse else ['=', '#', '-', '.', '=']

    def bond(allow_ez):
        r = rng.random()
        if r < 0.5:
            if ez and allow_ez and r < 0.2:
                return ['e:' + rng.choice(['/', '\\'])]
            return []
        return ['b:' + rng.choice(bond_syms)]

    def chain(par):
        me = counter[0]
        counter[0] += 1
        left[0] -= 1
        if par is not None:
            parent[me] = par
        toks = [('atom', me)]
        while left[0] > 1 and rng.random() < 0.3:
            b = bond(not coarse)
            inner = chain(me)
            if coarse:
                toks += [x for x in b if x[0] == 'b'] + ['('] + inner + [')']
            else:
                toks += ['('] + b + inner + [')']
        if left[0] > 0 and (par is None or rng.random() < 0.7):
            toks += bond(True) + chain(me)
        return toks

    toks = chain(None)
    n = counter[0]
    spelled = [rng.choice(atoms) for _ in range(n)]
    rings = {i: [] for i in range(n)}
    markers = ['1', '2', '3', '%10', '%12']
    rng.shuffle(markers)
    pairs = [(i, j) for i in range(n) for j in range(i + 1, n) if parent.get(j) != i and parent.get(i) != j]
    rng.shuffle(pairs)
    for (i, j) in pairs[:rng.choice([0, 0, 1, 1, 2])]:
        m = markers.pop()
        sym = rng.choice(['', '', '=', '#'])
        where = rng.choice(['open', 'close', 'both']) if sym else 'none'
        rings[i].append((sym if where in ('open', 'both') else '') + m)
        rings[j].append((sym if where in ('close', 'both') else '') + m)
    out = []
    for t in toks:
        if isinstance(t, tuple):
            out.append(spelled[t[1]])
            # single-digit markers first: a '%nn' marker is never directly followed by a digit marker
            for m in sorted(rings[t[1]], key=lambda m: '%' in m):
                out.append('r:' + m)
        else:
            out.append(t)
    return ' '.join(out)


def random_cases(seed, n_cases, max_ins, coarse_share=0.25, ez_share=0.15):
    """Seeded random skeleton + 0..max_ins random insertions from the full alphabet with random labels."""
    rng = random.Random(seed * 7919 + 13)
    labels = ['', '', 'A', 'B', '1', '1a', 'x9', 'Ab1']
    made = 0
    while made < n_cases:
        coarse = rng.random() < coarse_share
        ez = (not coarse) and rng.random() < ez_share
        s = random_skeleton(rng, coarse=coarse, ez=ez)
        sk = parse(s)
        if ez and sk.ez is None:
            continue
        k = rng.randint(1, max_ins)
        ins = sorted(([rng.choice(sk.slots), rng.choice(KINDS), rng.choice(labels), rng.choice(SYMS)]
                      for _ in range(k)), key=lambda x: sk.slots.index(x[0]))
        made += 1
        yield {'sk': s, 'ins': ins}
