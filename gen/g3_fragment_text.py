"""
G3 -- fragment text with inserted bonding descriptors (DESIGN.md section 3.2).

A *skeleton* is a sequence of tokens of a valid SMILES / coarse (CGsmiles) fragment, written as one
string of space separated tokens (no token contains a space, so the string is cheap to pickle and
readable in a replay file):

    a:<sym>                bare atom, e.g. a:C a:Cl a:c a:*
    A:<body>[:<ann>...]    bracket atom / coarse node, rendered '[' body (';' ann)* ']',
                           e.g. A:NH3+  A:C:0.5  A:O:q=4:p=s  A:#TC4  A:#OT1:w=0.5
    b:<sym>                bond symbol of the skeleton ( . - = # $ : )
    (   )                  branch open / close
    r:<sym?><marker>       ring closure marker on the preceding atom, with an optional ring-bond symbol,
                           e.g. r:1  r:=1  r:%12  r:#%12
    e:/  e:\\               cis/trans mark

An *insertion* is [slot, kind, label, sym]: `slot` is the index of the token after which the descriptor is
written (an atom, a ring marker or a branch close), or -1 for a leading descriptor (before the first atom).
`kind` is one of $ > < !, `label` alphanumeric or '', `sym` one of '' . - = # $ (the optional bond order
symbol).  Descriptors in the same slot are written in list order.  Conventions (docs/source/syntax/
fragments.rst, cgsmiles/tests/test_cgsmile_parsing.py::test_strip_bonding_descriptors): after an atom the
order symbol is written BEFORE the descriptor (`C=[$]`), for a leading descriptor AFTER it (`[$]=C`).

`render(skeleton, insertions)` returns everything that is known BY CONSTRUCTION:
    text   the fragment text with descriptors, annotations and marks
    clean  the text without descriptors, annotations and cis/trans marks
    desc   {atom index: [kind + label + str(order), ...]} in order of appearance
    ann    {atom index: expected annotation dict} for annotated atoms only
    ez     {atom index: mark} (None when some atom is touched by two different marks: not predicted)
Atom indices count atoms / nodes in order of appearance (0-based).  A descriptor belongs to the atom it is
written after; after a ring marker to the atom carrying the marker; after a branch close to the atom the
branch is anchored on (`CC(C)[$]` -> atom 1, as in the PMMA example of the tests); a leading one to atom 0.

Nothing in this module imports cgsmiles.
"""
import functools
import itertools
import random

SYM_ORDER = {'': 1, '-': 1, '=': 2, '#': 3, '$': 4, '.': 0}
KINDS = ('$', '>', '<', '!')


# --------------------------------------------------------------------------------------------------
# tokens
# --------------------------------------------------------------------------------------------------
def annotation_spec(entries):
    """Expected annotation dict of a fragment atom (independent of cgsmiles.dialects).

    Written from docs/source/syntax/basic_graph_description.rst ("Reserved Annotation Symbols", atomic
    resolution): positional entries bind to w (weight, float, default 1.0) then x (chirality, str, no
    default); `w=`/`x=` keywords are the same parameters; they are reported as 'weight' / 'chiral'; every
    other `key=value` is kept verbatim (string value).
    """
    pos = [e for e in entries if '=' not in e]
    kw = dict(e.split('=') for e in entries if '=' in e)
    names = ['w', 'x']
    bound = {}
    for name, val in zip(names, pos):
        bound[name] = val
    for k, v in kw.items():
        assert k not in bound
        bound[k] = v
    out = {}
    for k, v in bound.items():
        if k not in ('w', 'x'):
            out[k] = v
    out['weight'] = float(bound.get('w', 1.0))
    if 'x' in bound:
        out['chiral'] = bound['x']
    return out


class Skel(object):
    __slots__ = ('tokens', 'src', 'clean', 'owner', 'atoms', 'ann', 'ez', 'slots', 'n_atoms', 'features',
                 'coarse', 'lenient_ann')


@functools.lru_cache(maxsize=4096)
def parse(skeleton):
    """Token string -> Skel (per-token source text, clean text, owner atom of each slot)."""
    sk = Skel()
    toks = skeleton.split(' ')
    sk.tokens = toks
    src, clean, owner = [], [], []
    ann, ez, feats = {}, {}, set()
    lenient = set()
    ez_ok = True
    stack = []
    natoms = 0
    prev = None          # atom the next thing is bonded to / written after
    pending_mark = None
    coarse = False
    for t in toks:
        if t == '(':
            stack.append(prev)
            src.append('('); clean.append('('); owner.append(None)
            feats.add('branch')
        elif t == ')':
            prev = stack.pop()
            src.append(')'); clean.append(')'); owner.append(prev)
        elif t[0] == 'a':
            s = t[2:]
            src.append(s); clean.append(s); owner.append(natoms)
            if len(s) == 2:
                feats.add('two-letter')
            if pending_mark is not None:
                for n in (prev, natoms):
                    if n in ez and ez[n] != pending_mark:
                        ez_ok = False
                    ez[n] = pending_mark
                pending_mark = None
            prev = natoms
            natoms += 1
        elif t[0] == 'A':
            parts = t[2:].split(':')
            body, entries = parts[0], parts[1:]
            src.append('[' + body + ''.join(';' + e for e in entries) + ']')
            clean.append('[' + body + ']')
            owner.append(natoms)
            feats.add('bracket')
            if body.startswith('#'):
                coarse = True
            if entries:
                feats.add('annotation')
                ann[natoms] = annotation_spec(entries)
                if body.startswith('#') and any('=' not in e for e in entries):
                    lenient.add(natoms)
            if pending_mark is not None:
                for n in (prev, natoms):
                    if n in ez and ez[n] != pending_mark:
                        ez_ok = False
                    ez[n] = pending_mark
                pending_mark = None
            prev = natoms
            natoms += 1
        elif t[0] == 'b':
            src.append(t[2:]); clean.append(t[2:]); owner.append(None)
            feats.add('bond-symbol')
        elif t[0] == 'r':
            src.append(t[2:]); clean.append(t[2:]); owner.append(prev)
            feats.add('ring')
            if t[2] not in '0123456789%':
                feats.add('ring-bond-symbol')
            if '%' in t:
                feats.add('%nn')
        elif t[0] == 'e':
            src.append(t[2:]); clean.append(''); owner.append(None)
            feats.add('ez')
            pending_mark = t[2:]
        else:
            raise ValueError('bad token %r' % t)
    assert not stack and natoms > 0
    sk.src, sk.clean, sk.owner = src, clean, owner
    sk.ann, sk.n_atoms = ann, natoms
    sk.ez = ez if ez_ok else None
    sk.atoms = [i for i, t in enumerate(toks) if t[0] in 'aA']
    sk.slots = [-1] + [i for i, t in enumerate(toks) if t[0] in 'aAr' or t == ')']
    sk.features = frozenset(feats)
    sk.coarse = coarse
    sk.lenient_ann = frozenset(lenient)
    return sk


def descriptor_text(kind, label, sym, leading=False):
    d = '[' + kind + label + ']'
    return d + sym if leading else sym + d


def descriptor_value(kind, label, sym):
    return kind + label + str(SYM_ORDER[sym])


def render(skeleton, insertions):
    """(text, clean, desc, ann, ez) for a skeleton with the given insertions -- all by construction."""
    sk = parse(skeleton)
    by_slot = {}
    for slot, kind, label, sym in insertions:
        by_slot.setdefault(slot, []).append((kind, label, sym))
    desc = {}
    out = []
    for kind, label, sym in by_slot.get(-1, ()):
        out.append(descriptor_text(kind, label, sym, leading=True))
        desc.setdefault(0, []).append(descriptor_value(kind, label, sym))
    for i, s in enumerate(sk.src):
        out.append(s)
        if i in by_slot:
            own = sk.owner[i]
            assert own is not None and sk.tokens[i][0] in 'aAr)', 'not a slot: %r' % (sk.tokens[i],)
            for kind, label, sym in by_slot[i]:
                out.append(descriptor_text(kind, label, sym))
                desc.setdefault(own, []).append(descriptor_value(kind, label, sym))
    return ''.join(out), ''.join(sk.clean), desc, sk.ann, sk.ez


# --------------------------------------------------------------------------------------------------
# skeleton families
# --------------------------------------------------------------------------------------------------
# atom spellings: bare one-letter, bare two-letter, aromatic, bracket, bracket + annotations
ATOMS_ATOMISTIC = ['a:C', 'a:Cl', 'a:c', 'A:NH3+', 'A:C:0.5', 'A:O:q=4:p=s', 'A:C:x=R', 'a:Br',
                   'a:N', 'A:O-', 'A:13CH3', 'A:C:1:S', 'A:C:w=0.25:x=S', 'A:H:0.1', 'A:Si', 'a:*', 'a:o',
                   'A:C@H', 'A:C:r=abc']
ATOMS_COARSE = ['A:#A', 'A:#TC4', 'A:#OT1:w=0.5', 'A:#CD1:r=abc', 'A:#OT1:0.5', 'A:#B2:w=2:r=ab']

# shapes: x = atom placeholder (filled left to right); everything else is a literal token.
# Atomistic: the bond symbol of a branch follows '(' ; coarse (CGsmiles): it precedes '('.
SHAPES_ATOMISTIC = [
    'x', 'x x', 'x b:= x', 'x x b:# x', 'x b:= x x', 'x b:- x b:. x',
    'x ( x ) x', 'x ( b:= x ) x', 'x ( x ) b:= x', 'x ( x ) ( x ) x', 'x ( x ( x ) ) x', 'x x ( b:= x )',
    'x r:1 x x r:1', 'x r:=1 x x r:=1', 'x r:=1 x x r:1', 'x r:1 x x r:=1', 'x r:%12 x x r:%12',
    'x r:#%12 x x r:%12', 'x r:1 r:2 x x r:1 x r:2', 'x r:1 x ( x ) x r:1', 'x r:=1 x ( x r:=1 ) x',
    'x r:1 r:%10 x x r:=1 x r:%10', 'x b:: x',
]
SHAPES_EZ = ['x e:/ x b:= x e:/ x', 'x x ( e:\\ x ) b:= x', 'x x ( e:/ x ) b:= x ( e:\\ x ) x',
             'x e:\\ x b:= x r:1 x x r:1']
SHAPES_COARSE = [
    'x', 'x x', 'x b:= x', 'x x b:. x', 'x ( x ) x', 'x b:= ( x ) x', 'x ( x ) b:# x', 'x ( x ) ( x ) x',
    'x ( x ( x ) ) x', 'x r:1 x x r:1', 'x r:=1 x x r:1', 'x r:=1 x x r:=1', 'x r:%12 x x r:%12',
    'x r:.1 x ( x ) x r:1',
]


# an upper-case one-letter atom directly followed by a lower-case (aromatic) atom whose letters together spell another
# element (Sc, Sn, Cn, Co, Cs, Nb, Os, Nb ...): they are two atoms
ADJACENT_PAIRS = [
    'a:C a:S a:c r:1 a:c a:c a:c a:c a:c r:1', 'a:S a:c r:1 a:c a:c a:c ( a:O ) a:c a:c r:1', 'a:C a:n r:1 a:c a:c a:c a:c r:1',
    'a:S a:n r:1 a:c a:c a:c a:c r:1', 'a:C a:o', 'a:C a:s', 'a:N a:b', 'a:O a:s r:1 a:c a:c a:c a:c r:1', 'a:C a:C a:S a:c r:1 a:c a:c a:n a:c a:c r:1',
]


def fill(shape, atoms):
    it = iter(atoms)
    return ' '.join(next(it) if t == 'x' else t for t in shape.split(' '))


def n_placeholders(shape):
    return shape.split(' ').count('x')


def shifted_fillings(shape, atoms, n_fill, step=3):
    """n_fill assignments of spellings to the atom positions; every spelling in atoms[:n_fill] occurs at
    every position once (cyclic shifts), neighbouring positions get different spellings."""
    n = n_placeholders(shape)
    m = len(atoms)
    for s in range(n_fill):
        yield fill(shape, [atoms[(s + i * step) % m] for i in range(n)])


def skeletons(tier):
    """The enumerated skeleton set of a tier: list of (skeleton string, family)."""
    out = [(s, 'atomistic') for s in ADJACENT_PAIRS]
    if tier == 'quick':
        at, co = ATOMS_ATOMISTIC[:8], ATOMS_COARSE[:4]
        for sh in SHAPES_ATOMISTIC:
            for s in shifted_fillings(sh, at, 8 if n_placeholders(sh) <= 2 else 4):
                out.append((s, 'atomistic'))
        for sh in SHAPES_EZ:
            for s in shifted_fillings(sh, ['a:C', 'a:F', 'a:Cl', 'A:C:x=R', 'a:N'], 2, step=1):
                out.append((s, 'ez'))
        for sh in SHAPES_COARSE:
            for s in shifted_fillings(sh, co, 2 if n_placeholders(sh) > 1 else 4, step=1):
                out.append((s, 'coarse'))
    else:
        at, co = ATOMS_ATOMISTIC, ATOMS_COARSE
        for sh in SHAPES_ATOMISTIC:
            for s in shifted_fillings(sh, at, len(at) if n_placeholders(sh) <= 2 else 12, step=5):
                out.append((s, 'atomistic'))
        for sh in SHAPES_EZ:
            for s in shifted_fillings(sh, ['a:C', 'a:F', 'a:Cl', 'A:C:x=R', 'a:N', 'a:Br', 'A:CH2'], 7, step=1):
                out.append((s, 'ez'))
        for sh in SHAPES_COARSE:
            for s in shifted_fillings(sh, co, len(co), step=1):
                out.append((s, 'coarse'))
    seen, uniq = set(), []
    for s, fam in out:
        if s not in seen:
            seen.add(s)
            uniq.append((s, fam))
    return uniq


# --------------------------------------------------------------------------------------------------
# descriptor alphabets and insertion enumeration
# --------------------------------------------------------------------------------------------------
LABELS = ('', 'A', '1a')
SYMS = ('', '=', '.', '#', '-', '$')


def alphabet_full():
    return [(k, l, s) for s in SYMS for l in LABELS for k in KINDS]


def alphabet_medium():
    """12 descriptors: every kind, every symbol, labelled and unlabelled."""
    return [('$', '', ''), ('$', 'A', ''), ('>', '', ''), ('<', '1a', ''), ('!', '', ''),
            ('$', '', '='), ('$', 'A', '.'), ('>', '', '#'), ('<', '', '-'), ('!', '', '$'),
            ('>', '1a', '='), ('!', '', '.')]


def alphabet_small():
    return [('$', '', ''), ('>', 'A', '='), ('<', '', '.'), ('!', '1a', '#'), ('$', '', '-'), ('$', 'A', '$')]


def single_insertions(skeleton, alphabet):
    for slot in parse(skeleton).slots:
        for d in alphabet:
            yield [[slot] + list(d)]


def multi_insertions(skeleton, k, alphabet):
    """All sequences of exactly k insertions (slots non-decreasing in text order; within one slot every
    order of the descriptors)."""
    slots = parse(skeleton).slots
    for combo in itertools.combinations_with_replacement(range(len(slots)), k):
        for ds in itertools.product(alphabet, repeat=k):
            yield [[slots[si]] + list(d) for si, d in zip(combo, ds)]


# --------------------------------------------------------------------------------------------------
# seeded random skeletons (beyond the enumerated shapes)
# --------------------------------------------------------------------------------------------------
def random_skeleton(rng, coarse=False, max_atoms=8, ez=False):
    """Random tree of atoms (chain / nested branches) with up to two ring closures between atoms that are
    not bonded otherwise; built top-down, so the token sequence is valid by construction."""
    atoms = ATOMS_COARSE if coarse else ATOMS_ATOMISTIC
    left = [rng.randint(1, max_atoms)]
    parent = {}
    counter = [0]
    bond_syms = ['=', '#', '.', '$', '-'] if coarse else ['=', '#', '-', '.', '=']

    def bond(allow_ez):
        r = rng.random()
        if r < 0.5:
            if ez and allow_ez and r < 0.2:
                return ['e:' + rng.choice(['/', '\\'])]
            return []
        return ['b:' + rng.choice(bond_syms)]

    def chain(par):
        me = counter[0]
        counter[0] += 1
        left[0] -= 1
        if par is not None:
            parent[me] = par
        toks = [('atom', me)]
        while left[0] > 1 and rng.random() < 0.3:
            b = bond(not coarse)
            inner = chain(me)
            if coarse:
                toks += [x for x in b if x[0] == 'b'] + ['('] + inner + [')']
            else:
                toks += ['('] + b + inner + [')']
        if left[0] > 0 and (par is None or rng.random() < 0.7):
            toks += bond(True) + chain(me)
        return toks

    toks = chain(None)
    n = counter[0]
    spelled = [rng.choice(atoms) for _ in range(n)]
    rings = {i: [] for i in range(n)}
    markers = ['1', '2', '3', '%10', '%12']
    rng.shuffle(markers)
    pairs = [(i, j) for i in range(n) for j in range(i + 1, n) if parent.get(j) != i and parent.get(i) != j]
    rng.shuffle(pairs)
    for (i, j) in pairs[:rng.choice([0, 0, 1, 1, 2])]:
        m = markers.pop()
        sym = rng.choice(['', '', '=', '#'])
        where = rng.choice(['open', 'close', 'both']) if sym else 'none'
        rings[i].append((sym if where in ('open', 'both') else '') + m)
        rings[j].append((sym if where in ('close', 'both') else '') + m)
    out = []
    for t in toks:
        if isinstance(t, tuple):
            out.append(spelled[t[1]])
            # single-digit markers first: a '%nn' marker is never directly followed by a digit marker
            for m in sorted(rings[t[1]], key=lambda m: '%' in m):
                out.append('r:' + m)
        else:
            out.append(t)
    return ' '.join(out)


def random_cases(seed, n_cases, max_ins, coarse_share=0.25, ez_share=0.15):
    """Seeded random skeleton + 0..max_ins random insertions from the full alphabet with random labels."""
    rng = random.Random(seed * 7919 + 13)
    labels = ['', '', 'A', 'B', '1', '1a', 'x9', 'Ab1']
    made = 0
    while made < n_cases:
        coarse = rng.random() < coarse_share
        ez = (not coarse) and rng.random() < ez_share
        s = random_skeleton(rng, coarse=coarse, ez=ez)
        sk = parse(s)
        if ez and sk.ez is None:
            continue
        k = rng.randint(1, max_ins)
        ins = sorted(([rng.choice(sk.slots), rng.choice(KINDS), rng.choice(labels), rng.choice(SYMS)]
                      for _ in range(k)), key=lambda x: sk.slots.index(x[0]))
        made += 1
        yield {'sk': s, 'ins': ins}


# ==================================================================================================
# Round-trip material for C08: chemically readable skeletons, descriptor stacks, complete strings
# ==================================================================================================
RT_SYMS = ('', '=', '.', '#', '-')          # orders 1 2 0 3 1  (the statement of C08 covers orders 0-3)

# atomistic skeletons pysmiles reads (connected, no wildcard)
RT_ATOMISTIC = [
    'a:C', 'a:C a:C', 'a:C a:O a:C', 'a:C b:= a:C', 'a:C b:# a:C', 'a:C b:- a:C',
    'a:C a:C ( a:C ) a:C ( b:= a:O ) a:O a:C',
    'a:c r:1 a:c a:c a:c a:c a:c r:1',
    'a:C r:1 a:C a:C r:1', 'a:C r:=1 a:C a:C r:=1', 'a:C r:=1 a:C a:C r:1', 'a:C r:1 a:C a:C r:=1',
    'a:C r:%12 a:C a:C r:%12', 'a:C r:1 r:2 a:C a:C r:1 a:C r:2',
    'A:NH3+ a:C', 'A:O- a:C ( b:= a:O ) a:C', 'a:Cl a:C a:Br', 'A:CH2 A:CH2',
    'a:c r:1 a:c a:c a:n a:c a:c r:1', 'a:c r:1 a:c a:c A:nH a:c r:1', 'a:N ( a:C ) a:C',
    'a:S ( b:= a:O ) ( b:= a:O ) a:C', 'A:H', 'A:Si ( a:C ) a:C', 'a:C ( a:F ) ( a:Cl ) a:Br',
    'a:c r:1 a:c a:c ( a:C ) a:c a:c a:c r:1', 'a:C a:C ( a:C ( a:O ) ) a:N', 'A:13CH3 a:C', 'a:O b:= a:C a:O',
    'a:N b:# a:C a:C', 'A:H a:C', 'a:C ( A:H ) a:O', 'a:c r:1 a:c a:c A:n+ ( a:C ) a:c a:c r:1', 'a:C a:P ( b:= a:O ) ( a:O ) a:O',
    'a:C a:C r:1 a:C a:C r:2 a:C a:C r:1 a:C a:C r:2',
    # three rings whose ring bonds interleave (1 opens, 2 opens, 1 closes, 3 opens before 2 closes): marker re-use
    'a:C r:1 a:C r:2 a:C a:C r:1 a:C r:3 a:C a:C r:2 a:C a:C r:3', 'a:C r:1 a:C r:2 a:C r:1 a:C r:3 a:C r:2 a:C r:3',
    # explicit hydrogens that are kept only because they are annotated (the writer writes them as plain [H])
    'A:H:0.1 a:C', 'a:C ( A:H:0.5 ) a:O', 'a:C a:O A:C:0.5 ( A:H:0.1 ) A:H:0.2',
    # a SINGLE bond between two aromatic atoms that closes a ring (biphenylene, fluorene): it needs its '-'
    'a:c r:1 a:c a:c a:c r:2 a:c ( a:c r:1 ) b:- a:c r:3 a:c a:c a:c a:c a:c r:3 r:-2',
    'a:c r:1 a:c a:c a:c r:2 a:c ( a:c r:1 ) a:C a:c r:3 a:c a:c a:c a:c a:c r:3 r:-2',
]
# coarse skeletons read_cgsmiles reads (bond symbol BEFORE '(' ; no trailing %nn, no |n, no annotations)
RT_COARSE = [
    'A:#A', 'A:#A A:#B', 'A:#TC4 A:#TC4', 'A:#A b:= A:#B', 'A:#A b:. A:#B', 'A:#A b:# A:#B A:#C',
    'A:#A ( A:#B ) A:#C', 'A:#A b:= ( A:#B ) A:#C', 'A:#A ( A:#B ) b:= A:#C', 'A:#A ( A:#B ) ( A:#C ) A:#D',
    'A:#A r:1 A:#B A:#C r:1', 'A:#A r:=1 A:#B A:#C r:1', 'A:#A r:%12 A:#B A:#C r:%12 A:#D',
    'A:#A r:1 A:#B ( A:#C ) A:#D r:1', 'A:#A ( A:#B A:#C ) A:#D A:#E', 'A:#A b:- A:#B',
    # one node opens two rings, the ordered one written last here and first by the writer (and the other way round)
    'A:#A r:2 r:=1 A:#B A:#C r:1 A:#D r:2', 'A:#A r:=2 r:1 A:#B A:#C r:1 A:#D r:2', 'A:#A r:1 r:#2 A:#B A:#C r:1 A:#D r:2',
    'A:#A r:1 r:2 A:#B A:#C r:=1 A:#D r:2', 'A:#A r:1 r:2 A:#B A:#C r:1 A:#D r:=2', 'A:#A r:=1 r:2 r:3 A:#B A:#C r:1 A:#D r:2 A:#E r:3',
]


def rt_alphabet_full():
    return [(k, l, s) for s in RT_SYMS for l in LABELS for k in KINDS]


def rt_alphabet_medium():
    return [('$', '', ''), ('$', 'A', '='), ('>', '', '.'), ('<', '1a', '#'), ('!', '', '-'), ('>', 'A', ''),
            ('<', '', '='), ('!', 'A', '.'), ('$', '1a', '#'), ('$', '', '.')]


def rt_alphabet_small():
    return [('$', '', ''), ('$', 'A', '='), ('>', '', '.'), ('<', '1a', '#'), ('!', '', '-')]


def stacks_on_one_slot(skeleton, k, alphabet, slots=None):
    """k descriptors on one slot, every sequence over the alphabet."""
    for slot in (slots if slots is not None else parse(skeleton).slots):
        for ds in itertools.product(alphabet, repeat=k):
            yield [[slot] + list(d) for d in ds]


# ------------------------------------------------------------------------------------------ complete strings
# atomistic fragment library for complete strings: (skeleton, [(slot, free valence of the atom)...])
AA_LIB = [
    ('a:C a:C', [(0, 3), (1, 3)]),
    ('a:C a:O a:C', [(0, 3), (2, 3)]),
    ('a:C a:C ( a:C ) a:C ( b:= a:O ) a:O a:C', [(0, 3), (1, 1), (11, 3)]),
    ('a:c r:1 a:c a:c a:c a:c a:c r:1', [(1, 1), (2, 1), (4, 1)]),
    ('a:C r:1 a:C a:C r:1', [(1, 2), (2, 2), (3, 2)]),
    ('a:N ( a:C ) a:C', [(0, 1), (2, 3), (4, 3)]),
    ('A:NH2+ ( a:C ) a:C', [(2, 3), (4, 3)]),
    ('a:C b:= a:C', [(0, 2), (2, 2)]),
    ('a:C ( b:= a:O ) A:O-', [(0, 1)]),
    ('a:C a:C a:C', [(0, 3), (1, 2), (2, 3)]),
    ('a:Cl a:C a:C', [(1, 2), (2, 3)]),
]
ORDER_SYM = {1: '', 2: '=', 3: '#', 0: '.'}

# graph shapes: (template over node names, [(u, v, number of bonds)], number of nodes)
GRAPH_SHAPES = [
    ('{{[#{0}][#{1}]}}', [(0, 1, 1)], 2),
    ('{{[#{0}][#{1}][#{2}]}}', [(0, 1, 1), (1, 2, 1)], 3),
    ('{{[#{0}]([#{1}])[#{2}]}}', [(0, 1, 1), (0, 2, 1)], 3),
    ('{{[#{0}]1[#{1}][#{2}]1}}', [(0, 1, 1), (1, 2, 1), (0, 2, 1)], 3),
    ('{{[#{0}]=[#{1}]}}', [(0, 1, 2)], 2),
    ('{{[#{0}]=([#{1}])[#{2}]}}', [(0, 1, 2), (0, 2, 1)], 3),
    ('{{[#{0}]([#{1}])=[#{2}]}}', [(0, 1, 1), (0, 2, 2)], 3),
    ('{{[#{0}]=1[#{1}][#{2}]1}}', [(0, 1, 1), (1, 2, 1), (0, 2, 2)], 3),
    ('{{[#{0}][#{1}].[#V]}}', [(0, 1, 1)], 2),
    ('{{[#V].[#{0}][#{1}]}}', [(0, 1, 1)], 2),
    ('{{[#{0}]#[#{1}]}}', [(0, 1, 3)], 2),
    ('{{[#{0}][#{1}]([#{2}])[#{3}]}}', [(0, 1, 1), (1, 2, 1), (1, 3, 1)], 4),
    ('{{[#{0}]1[#{1}][#{2}][#{3}]1}}', [(0, 1, 1), (1, 2, 1), (2, 3, 1), (0, 3, 1)], 4),
    ('{{[#{0}][#{1}]=([#{2}][#{3}])[#{4}]}}', [(0, 1, 1), (1, 2, 2), (2, 3, 1), (1, 4, 1)], 5),
]
KIND_SCHEMES = [('$', '$'), ('>', '<'), ('<', '>'), ('!', '!')]


def _label(n):
    return 'abcdefghijklmnopqrstuvwxyz'[n % 26] + (str(n // 26) if n >= 26 else '')


def atomistic_layer(names, edges, lib_rot=0, scheme=0, want_order=1, site_off=0, leading=False, label0=0):
    """Atomistic fragment definitions for a graph whose nodes (unique names) are joined by `edges`
    [(u, v, n_bonds)]: every bond gets its own uniquely labelled descriptor pair, so the resolution is
    unambiguous whatever the order of atoms or descriptors.  Returns {name: fragment text} or None."""
    n = len(names)
    need = [0] * n
    for u, v, m in edges:
        need[u] += m
        need[v] += m
    frags, caps, ins = [], [], [[] for _ in range(n)]
    for i in range(n):
        for t in range(len(AA_LIB)):
            sk, sites = AA_LIB[(lib_rot + i + t) % len(AA_LIB)]
            if sum(c for _, c in sites) >= need[i]:
                break
        else:
            return None
        frags.append(sk)
        caps.append([list(s) for s in sites])
    kl, kr = KIND_SCHEMES[scheme % 4]
    lab = label0

    def pick(i, o, squash):
        sites = caps[i]
        for t in range(len(sites)):
            s = sites[(site_off + t) % len(sites)]
            # squash only between methyl-like carbons (free valence 3): the merged atom then has two neighbours
            if s[1] >= o and (not squash or s[1] == 3):
                return s
        return None

    for u, v, m in edges:
        for j in range(m):
            squash = kl == '!'
            done = False
            for o in ([want_order, 1] if want_order != 1 else [1]):
                if squash and o != 1:
                    continue
                su, sv = pick(u, o, squash), pick(v, o, squash)
                if su is None or sv is None:
                    continue
                if squash:
                    su[1] = 0
                    sv[1] = 0
                else:
                    su[1] -= o
                    sv[1] -= o
                L = _label(lab)
                lab += 1
                ins[u].append([su[0], kl, L, ORDER_SYM[o]])
                ins[v].append([sv[0], kr, L, ORDER_SYM[o]])
                done = True
                break
            if not done:
                return None
    out = {}
    for i in range(n):
        these = ins[i]
        if leading:
            # a descriptor on the first atom (slot 0, an atom token) may be written as a leading descriptor
            these = [[-1] + d[1:] if d[0] == 0 and parse(frags[i]).tokens[0][0] in 'aA' else d for d in these]
        these = sorted(these, key=lambda d: d[0])
        out[names[i]] = render(frags[i], these)[0]
    return out


def two_level_strings():
    """Complete two-level strings {graph}.{atomistic fragments}: unique fragment per node, unique label per bond."""
    for si, (tmpl, edges, n) in enumerate(GRAPH_SHAPES):
        names = ['F%d' % i for i in range(n)]
        for lib_rot in range(0, len(AA_LIB), 2):
            for scheme in range(4):
                for want in (1, 2, 3):
                    for site_off in (0, 1):
                        layer = atomistic_layer(names, edges, lib_rot, scheme, want, site_off,
                                                leading=(site_off == 1))
                        if layer is None:
                            continue
                        yield (tmpl.format(*names) + '.{' + ','.join('#%s=%s' % (k, v) for k, v in layer.items()) + '}',
                               True)


# coarse fragments for the middle level: (skeleton template over node names, internal edges, node count)
COARSE_INNER = [
    ('A:#{0}', [], 1),
    ('A:#{0} A:#{1}', [(0, 1, 1)], 2),
    ('A:#{0} b:= A:#{1}', [(0, 1, 2)], 2),
    ('A:#{0} A:#{1} A:#{2}', [(0, 1, 1), (1, 2, 1)], 3),
    ('A:#{0} ( A:#{1} ) A:#{2}', [(0, 1, 1), (0, 2, 1)], 3),
    ('A:#{0} r:1 A:#{1} A:#{2} r:1', [(0, 1, 1), (1, 2, 1), (0, 2, 1)], 3),
    ('A:#{0} b:= ( A:#{1} ) A:#{2}', [(0, 1, 2), (0, 2, 1)], 3),
]


def coarse_layer(super_edges, n_super, inner_rot=0, scheme=0, want_order=1, node_off=0):
    """Middle level: one coarse fragment per super node.  Returns (fragment texts {X_i: text}, level-1 node
    names, level-1 edges [(a, b, n_bonds)]) -- the level-1 graph the atomistic layer has to realise."""
    groups, sk_of, names, l1_edges = [], [], [], []
    for i in range(n_super):
        tmpl, inner, k = COARSE_INNER[(inner_rot + i) % len(COARSE_INNER)]
        ids = list(range(len(names), len(names) + k))
        names.extend('N%d' % j for j in ids)
        groups.append(ids)
        sk_of.append(tmpl.format(*['N%d' % j for j in ids]))
        l1_edges.extend((ids[a], ids[b], m) for a, b, m in inner)
    kl, kr = KIND_SCHEMES[scheme % 3]      # no squash between coarse nodes
    ins = [[] for _ in range(n_super)]
    lab = 0
    used_pairs = set()
    for u, v, m in super_edges:
        for j in range(m):
            # choose the level-1 nodes carrying this connection (distinct pairs for parallel connections)
            for t in range(len(groups[u]) * len(groups[v])):
                a = groups[u][(node_off + j + t) % len(groups[u])]
                b = groups[v][(node_off + t // len(groups[u])) % len(groups[v])]
                if (a, b) not in used_pairs:
                    break
            else:
                return None
            if (a, b) in used_pairs:
                return None
            used_pairs.add((a, b))
            o = want_order
            L = _label(lab) + 'c'
            lab += 1
            slot_a = parse(sk_of[u]).atoms[groups[u].index(a)]
            slot_b = parse(sk_of[v]).atoms[groups[v].index(b)]
            ins[u].append([slot_a, kl, L, ORDER_SYM[o]])
            ins[v].append([slot_b, kr, L, ORDER_SYM[o]])
            l1_edges.append((a, b, o))
    texts = {}
    for i in range(n_super):
        texts['X%d' % i] = render(sk_of[i], sorted(ins[i], key=lambda d: d[0]))[0]
    return texts, names, l1_edges


def multi_level_strings():
    """Three-level strings {super graph}.{coarse fragments}.{atomistic fragments} and two-level strings whose
    last level is coarse (last_all_atom False)."""
    for si, (tmpl, edges, n) in enumerate(GRAPH_SHAPES[:9]):
        xs = ['X%d' % i for i in range(n)]
        for inner_rot in range(len(COARSE_INNER)):
            for scheme in range(3):
                for want in (1, 2):
                    for node_off in (0, 1):
                        cl = coarse_layer(edges, n, inner_rot, scheme, want, node_off)
                        if cl is None:
                            continue
                        texts, names, l1_edges = cl
                        head = tmpl.format(*xs) + '.{' + ','.join('#%s=%s' % kv for kv in texts.items()) + '}'
                        yield head, False
                        layer = atomistic_layer(names, l1_edges, lib_rot=inner_rot + si, scheme=scheme,
                                                want_order=1 + (node_off + want) % 3, site_off=node_off, label0=40)
                        if layer is not None:
                            yield head + '.{' + ','.join('#%s=%s' % kv for kv in layer.items()) + '}', True


CLASSIC_STRINGS = [
    ('{[#OH][#PEO]|3[#OH]}.{#OH=[$]O,#PEO=[$]COC[$]}', True),
    ('{[#PEO]1[#PEO]|4[#PEO]1}.{#PEO=[$]COC[$]}', True),
    ('{[#PMA]([#PEO]|3)|2}.{#PMA=[>]CC[<](C(=O)OC[$]),#PEO=[$]COC[$]}', True),
    ('{[#SC3]=[#SC3]}.{#SC3=[$]CCC[$]}', True),
    ('{[#A]#[#A]}.{#A=[$]CCC[$]CC[$]}', True),
    ('{[#SP4r]1.2[#SP4r].3[#SP1r]1.[#TC4]23}.{#SP4r=OC[$]C[$]O,#SP1r=[$]OC[$]CO}', True),
    ('{[#SC4]1[#TC5][#TC5]1}.{#SC4=Cc(c[!])c[!],#TC5=[!]ccc[!]}', True),
    ('{[#PS]|3}.{#PS=[>]CC[<]c1ccccc1}', True),
    ('{[#PEO][#PMMA][#PEO][#PMMA]}.{#PEO=[>]COC[<],#PMMA=[>]CC(C)[<]C(=O)OC}', True),
    ('{[#TC5]1[#TC5][#TC5]1}.{#TC5=[$]cc[$]}', True),
    ('{[#A][#B]}.{#A=CC=[$],#B=[$]=CCC}', True),
    ('{[#mPEG]|2}.{#mPEG=[$][#PMA][$]([#PEG]|3)}.{#PMA=[<]CC[>]C(=O)OC[$],#PEG=[$]COC[$]}', True),
    ('{[#X][#Y]}.{#X=[#A][#B][$],#Y=[$][#B][#C]}', False),
    ('{[#X]=[#Y]}.{#X=[$a][#A][#B][$b],#Y=[$b][#B][#C][$a]}', False),
    ('{[#X]([#Y])[#Y]}.{#X=[>][#A][>],#Y=[<][#B]=[#C]}.{#A=[$]CC[$],#B=[$]C[$]=[$],#C=[$]=CO}', True),
    ('{[#BENZ]}.{#BENZ=c1ccccc1}', True),
    ('{[#A][#B]}.{#A=[NH3+]C[$],#B=[$]CC(=O)[O-]}', True),
    ('{[#A]([#B])([#B])[#B]}.{#A=[$]C([$])([$])Cl,#B=[$]C#N}', True),
]


def complete_strings(tier):
    """(string, last_all_atom) pairs: classics first, then the by-construction designs."""
    seen = set()
    for s in itertools.chain(CLASSIC_STRINGS, two_level_strings(), multi_level_strings()):
        if s[0] not in seen:
            seen.add(s[0])
            yield s
