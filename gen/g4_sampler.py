"""
G4 — sampler configurations (DESIGN §3.2) for the random polymer sampler `cgsmiles.sample.MoleculeSampler`.

A configuration (`cfg`, JSON-serialisable) is

    {'frags':   [{'name': str, 'lib': key into LIB_AA / LIB_CG,
                  'desc': [[atom_index, base, order, lead], ...]}, ...],     1..4 fragments, 1..4 descriptors each
     'all_atom': bool,
     'text':    the rendered fragment string, e.g. '{#PEO=[>]COC[<],#OH=[$]O}',
     'masses':  {name: mass} or None (None only in all-atom mode: masses derived from the elements),
     'pr':      polymer_reactivities   {descriptor: weight}   ({} = uniform choice)
     'fr':      fragment_reactivities  {site descriptor: {partner descriptor: weight}}
     'term':    terminal_bonds         [descriptor, ...]
     'seed':    int, 'target': number, 'start': fragment name or None}

`base` is the descriptor without its order digit (`$`, `$A`, `>`, `<B`, …), `order` is 1..3, `lead` says
that the descriptor is written in front of the first atom (`[$A]=C…`, order symbol AFTER the descriptor)
instead of behind its atom (`C=[$A]`, order symbol BEFORE the descriptor).  Table keys are spelled with or
without the trailing `1` of an order-1 descriptor (`'$A'` means `'$A1'`).

The fragment templates are a small hand-written library (skeleton text with one slot per atom, the atom
list and the bond list written out by hand), so that the expected template of every fragment — atoms,
internal bonds, descriptors per atom — is known BY CONSTRUCTION and never taken from the fragment reader.
Text is rendered conservatively: descriptors directly behind their atom (and behind its ring digits, none of
which carries a ring-bond symbol) or in front of the first atom; orders 1..3 only.  This stays clear of the
known reader defects F2 (descriptor behind a ring digit with bond symbol) and F3 (order 0).

The module also holds the functions both property modules (C16, C17) and the cross-process helper share:
`templates(cfg)`, `norm(descriptor)`, `complementary(a, b)`, `run(cfg)`, and `python -m gen.g4_sampler`
(reads a JSON list of configurations on stdin, prints the sha1 of the canonical dump of each sample).
"""
import contextlib
import hashlib
import io
import itertools
import json
import random
import sys

# ----------------------------------------------------------------------------------------------------
# template library
# ----------------------------------------------------------------------------------------------------
# usual (lowest) valences used for PLACING descriptors; independent of pysmiles
LOW_VALENCE = {'C': 4, 'N': 3, 'O': 2, 'S': 2, 'P': 3, 'F': 1, 'Cl': 1, 'Br': 1}


def _ring(first, n, order):
    return [(first + i, first + (i + 1) % n, order) for i in range(n)]


# key: (format with one slot per atom, elements, bonds (i, j, order))
LIB_AA = {
    'C':      ('C{0}', ['C'], []),
    'O':      ('O{0}', ['O'], []),
    'N':      ('N{0}', ['N'], []),
    'S':      ('S{0}', ['S'], []),
    'CC':     ('C{0}C{1}', ['C', 'C'], [(0, 1, 1)]),
    'COC':    ('C{0}O{1}C{2}', ['C', 'O', 'C'], [(0, 1, 1), (1, 2, 1)]),
    'ene':    ('C{0}=C{1}', ['C', 'C'], [(0, 1, 2)]),
    'yne':    ('C{0}#C{1}', ['C', 'C'], [(0, 1, 3)]),
    'CN':     ('C{0}N{1}', ['C', 'N'], [(0, 1, 1)]),
    'CS':     ('C{0}S{1}', ['C', 'S'], [(0, 1, 1)]),
    'CP':     ('C{0}P{1}', ['C', 'P'], [(0, 1, 1)]),
    'CCl':    ('C{0}C{1}Cl{2}', ['C', 'C', 'Cl'], [(0, 1, 1), (1, 2, 1)]),
    'CBr':    ('C{0}Br{1}', ['C', 'Br'], [(0, 1, 1)]),
    'CF2':    ('F{0}C{1}F{2}', ['F', 'C', 'F'], [(0, 1, 1), (1, 2, 1)]),
    'acid':   ('C{0}C{1}(=O{2})O{3}', ['C', 'C', 'O', 'O'], [(0, 1, 1), (1, 2, 2), (1, 3, 1)]),
    'amide':  ('N{0}C{1}(=O{2})C{3}', ['N', 'C', 'O', 'C'], [(0, 1, 1), (1, 2, 2), (1, 3, 1)]),
    'nitril': ('C{0}C{1}#N{2}', ['C', 'C', 'N'], [(0, 1, 1), (1, 2, 3)]),
    'iso':    ('C{0}(C{1})(C{2})C{3}', ['C', 'C', 'C', 'C'], [(0, 1, 1), (0, 2, 1), (0, 3, 1)]),
    'cyc3':   ('C1{0}C{1}C1{2}', ['C', 'C', 'C'], _ring(0, 3, 1)),
    'PMA':    ('C{0}C{1}C{2}(=O{3})O{4}C{5}', ['C', 'C', 'C', 'O', 'O', 'C'],
               [(0, 1, 1), (1, 2, 1), (2, 3, 2), (2, 4, 1), (4, 5, 1)]),
    'PMMA':   ('C{0}(C{1})C{2}C{3}(=O{4})O{5}C{6}', ['C', 'C', 'C', 'C', 'O', 'O', 'C'],
               [(0, 1, 1), (0, 2, 1), (2, 3, 1), (3, 4, 2), (3, 5, 1), (5, 6, 1)]),
    'benz':   ('c1{0}c{1}c{2}c{3}c{4}c1{5}', ['C'] * 6, _ring(0, 6, 1.5)),
    'PS':     ('C{0}C{1}c1{2}c{3}c{4}c{5}c{6}c1{7}', ['C'] * 8, [(0, 1, 1), (1, 2, 1)] + _ring(2, 6, 1.5)),
}

# coarse templates: (format, node names, bonds)
LIB_CG = {
    'A':     ('[#A]{0}', ['A'], []),
    'X':     ('[#X]{0}', ['X'], []),
    'AB':    ('[#A]{0}[#B]{1}', ['A', 'B'], [(0, 1, 1)]),
    'XY':    ('[#X]{0}[#Y]{1}', ['X', 'Y'], [(0, 1, 1)]),
    'XX':    ('[#X]{0}[#X]{1}', ['X', 'X'], [(0, 1, 1)]),
    'AdB':   ('[#A]{0}=[#B]{1}', ['A', 'B'], [(0, 1, 2)]),
    'ABC':   ('[#A]{0}[#B]{1}[#C]{2}', ['A', 'B', 'C'], [(0, 1, 1), (1, 2, 1)]),
    'star':  ('[#A]{0}([#B]{1})[#C]{2}', ['A', 'B', 'C'], [(0, 1, 1), (0, 2, 1)]),
    'ring3': ('[#A]1{0}[#B]{1}[#C]1{2}', ['A', 'B', 'C'], _ring(0, 3, 1)),
    'ABCD':  ('[#A]{0}[#B]{1}#[#C]{2}[#D]{3}', ['A', 'B', 'C', 'D'], [(0, 1, 1), (1, 2, 3), (2, 3, 1)]),
}

ORDER_SYMBOL = {1: '', 2: '=', 3: '#'}


def lib_entry(frag, all_atom):
    return (LIB_AA if all_atom else LIB_CG)[frag['lib']]


def free_valences(key):
    """Open valences per atom of an all-atom template (lowest usual valence minus bond-order sum)."""
    _, elems, bonds = LIB_AA[key]
    used = [0.0] * len(elems)
    for i, j, o in bonds:
        used[i] += o
        used[j] += o
    return [int(LOW_VALENCE[e] - u) for e, u in zip(elems, used)]


# ----------------------------------------------------------------------------------------------------
# descriptors (independent spec)
# ----------------------------------------------------------------------------------------------------
def norm(d):
    """`'$A'` means `'$A1'`."""
    return d if d[-1].isdigit() else d + '1'


def complementary(a, b):
    """Spec: `$x`+digit goes with `$y`+same digit (labels only steer probabilities); `>L`+d with `<L`+d."""
    a, b = norm(a), norm(b)
    if a[0] == '$':
        return b[0] == '$' and a[-1] == b[-1]
    if a[0] == '>':
        return b == '<' + a[1:]
    if a[0] == '<':
        return b == '>' + a[1:]
    return False


def templates(cfg):
    """Expected template per fragment name, by construction:
    {name: {'atoms': [...], 'bonds': [(i, j, order)], 'desc': {atom: [normalised descriptors]}}}"""
    out = {}
    for fr in cfg['frags']:
        _, atoms, bonds = lib_entry(fr, cfg['all_atom'])
        desc = {i: [] for i in range(len(atoms))}
        for atom, base, order, lead in fr['desc']:
            desc[atom].append('%s%d' % (base, order))
        out[fr['name']] = {'atoms': list(atoms), 'bonds': [tuple(b) for b in bonds], 'desc': desc}
    return out


def aromatic_atoms(key):
    _, elems, bonds = LIB_AA[key]
    return sorted({x for i, j, o in bonds if o == 1.5 for x in (i, j)})


def has_aromatic_descriptor(cfg):
    """Syntactic class: some bonding descriptor sits on an aromatic atom."""
    if not cfg['all_atom']:
        return False
    return any(d[0] in aromatic_atoms(fr['lib']) for fr in cfg['frags'] for d in fr['desc'])


def closed(cfg):
    """Every '>' / '<' descriptor has its complement somewhere in the configuration."""
    ds = all_descriptors(cfg)
    return all(any(complementary(d, e) for e in ds) for d in ds)


def all_descriptors(cfg):
    seen = []
    for fr in cfg['frags']:
        for atom, base, order, lead in fr['desc']:
            d = '%s%d' % (base, order)
            if d not in seen:
                seen.append(d)
    return seen


def render_fragment(fr, all_atom):
    fmt, atoms, _ = lib_entry(fr, all_atom)
    slots = [''] * len(atoms)
    lead_txt = ''
    for atom, base, order, lead in fr['desc']:
        if lead:
            assert atom == 0
            lead_txt += '[%s]%s' % (base, ORDER_SYMBOL[order])
        else:
            slots[atom] += '%s[%s]' % (ORDER_SYMBOL[order], base)
    return '#%s=%s%s' % (fr['name'], lead_txt, fmt.format(*slots))


def render(cfg):
    return '{' + ','.join(render_fragment(fr, cfg['all_atom']) for fr in cfg['frags']) + '}'


def finish(cfg):
    """Normalise the per-atom descriptor order to what a left-to-right reader sees and add the text."""
    for fr in cfg['frags']:
        fr['desc'] = [list(d) for d in fr['desc']]
    cfg['text'] = render(cfg)
    return cfg


def cfg_key(cfg):
    return json.dumps([cfg['text'], cfg['all_atom'], cfg['masses'], cfg['pr'], cfg['fr'], cfg['term'],
                       cfg['seed'], cfg['target'], cfg['start']], sort_keys=True)


# ----------------------------------------------------------------------------------------------------
# running the real code (shared by C16, C17 and the cross-process helper)
# ----------------------------------------------------------------------------------------------------
DEAD_END = (ValueError, OSError, IndexError, KeyError, ZeroDivisionError)


def build_kwargs(cfg):
    kw = dict(polymer_reactivities=dict(cfg['pr']),
              fragment_reactivities={k: dict(v) for k, v in cfg['fr'].items()},
              terminal_bonds=list(cfg['term']),
              fragment_masses=dict(cfg['masses']) if cfg['masses'] else None,
              all_atom=bool(cfg['all_atom']),
              seed=cfg['seed'])
    return kw


def construct(cfg):
    from cgsmiles.sample import MoleculeSampler
    return MoleculeSampler.from_fragment_string(cfg['text'], **build_kwargs(cfg))


def run(cfg, precondition=None):
    """Construct a fresh sampler with the configuration's seed and sample once. Returns (sampler, molecule);
    (sampler, None) when `precondition(sampler)` is given and false (nothing is sampled then)."""
    with contextlib.redirect_stdout(io.StringIO()):      # rebuild_h_atoms print()s pysmiles' complaint before raising
        sampler = construct(cfg)
        if precondition is not None and not precondition(sampler):
            return sampler, None
        mol = sampler.sample(cfg['target'], start_fragment=cfg['start'])
    return sampler, mol


def dump_hash(mol):
    from vf.util import canonical_dump
    return hashlib.sha1(canonical_dump(mol).encode()).hexdigest()


def run_hash(cfg):
    """sha1 of the canonical dump of one construct-and-sample history, or 'EXC:<type>'."""
    try:
        _, mol = run(cfg)
    except Exception as e:  # noqa
        return 'EXC:' + type(e).__name__
    return dump_hash(mol)


# ----------------------------------------------------------------------------------------------------
# hand-written scenarios (docstring examples of sample.py, test_sampler.py, edge cases)
# ----------------------------------------------------------------------------------------------------
def _f(name, lib, *desc):
    return {'name': name, 'lib': lib, 'desc': [list(d) for d in desc]}


def _cfg(frags, all_atom, pr=None, fr=None, term=None, masses=None, start=None):
    return {'frags': frags, 'all_atom': all_atom, 'pr': pr or {}, 'fr': fr or {}, 'term': term or [],
            'masses': masses, 'start': start}


def scenarios():
    """(label, partial cfg, targets) — seed / target are filled in by the caller."""
    S = []
    # docstring 1: random copolymer PMMA / PS
    pmma = _f('PMMA', 'PMMA', (0, '>', 1, True), (2, '<', 1, False))
    ps = _f('PS', 'PS', (0, '>', 1, True), (1, '<', 1, False))
    S.append(('doc-random-copolymer', _cfg([pmma, ps], True, pr={'>': 0.5, '<': 0.5}), [500, 1200]))
    # docstring 2: blocky copolymer with zero site reactivities and zero conditional reactivities
    pmma2 = _f('PMMA', 'PMMA', (0, '$A', 1, True), (2, '$B', 1, False))
    ps2 = _f('PS', 'PS', (0, '$C', 1, True), (1, '$D', 1, False))
    S.append(('doc-blocky', _cfg([pmma2, ps2], True,
                                 pr={'$A': 0.5, '$B': 0, '$C': 0.5, '$D': 0.0},
                                 fr={'$A': {'$A': 0., '$C': 0., '$B': 0.7, '$D': 0.3},
                                     '$B': {'$A': 0.7, '$C': 0.3, '$B': 0.0, '$D': 0.0},
                                     '$C': {'$A': 0., '$C': 0., '$B': 0.3, '$D': 0.7},
                                     '$D': {'$A': 0.3, '$C': 0.7, '$B': 0.0, '$D': 0.0}}), [600, 1500]))
    # docstring 3: head-head allowed with lower reactivity
    S.append(('doc-head-tail', _cfg([pmma2, ps2], True,
                                    pr={'$A': 0.25, '$B': 0.25, '$C': 0.25, '$D': 0.25},
                                    fr={'$A': {'$A': 0.1, '$C': 0.1, '$B': 0.4, '$D': 0.4},
                                        '$B': {'$A': 0.4, '$C': 0.4, '$B': 0.1, '$D': 0.1},
                                        '$C': {'$A': 0.1, '$C': 0.1, '$B': 0.4, '$D': 0.4},
                                        '$D': {'$A': 0.4, '$C': 0.4, '$B': 0.1, '$D': 0.1}}), [600, 1500]))
    # docstring 4: bottle brush with terminals
    pma = _f('PMA', 'PMA', (0, '>', 1, True), (1, '<', 1, False), (5, '>A', 1, False))
    peg = _f('PEG', 'COC', (0, '<A', 1, True), (2, '>A', 1, False), (2, '$A', 1, False))
    oh = _f('OH', 'O', (0, '$B', 1, True))
    S.append(('doc-bottle-brush', _cfg([pma, peg, oh], True, term=['$A', '$B'],
                                       pr={'<': 0.1, '>': 0.1, '>A': 0.8, '<A': 0.8, '$A': 0.3, '$B': 0.0},
                                       fr={'$A': {'$A': 0, '$B': 1.0}}), [400, 1000]))
    S.append(('doc-bottle-brush-start', _cfg([pma, peg, oh], True, term=['$A1', '$B'], start='PMA',
                                             pr={'<1': 0.1, '>': 0.1, '>A': 0.8, '<A1': 0.8, '$A': 0.3, '$B1': 0.0},
                                             fr={'$A1': {'$A': 0, '$B1': 1.0}}), [400, 1000]))
    # labels that END IN A DIGIT: `[$A1]` is the label A1 with the default order 1, stored as '$A11' -- the order is the LAST digit
    # (reactivities are keyed with the order written out, so that nothing is ambiguous)
    pmma3 = _f('PMMA', 'PMMA', (0, '$A1', 1, True), (2, '$A2', 1, False))
    ps3 = _f('PS', 'PS', (0, '$B1', 1, True), (1, '$B2', 1, False))
    S.append(('digit-labels', _cfg([pmma3, ps3], True, pr={'$A11': 0.25, '$A21': 0.25, '$B11': 0.25, '$B21': 0.25}), [400, 900]))
    peo3 = _f('PEO', 'COC', (0, '>1', 1, True), (2, '<1', 1, False))
    S.append(('digit-labels-directed', _cfg([peo3], True, pr={'>11': 0.5, '<11': 0.5}), [200, 500]))
    # docstring 5: dextran, coarse, ring fragment
    glc = _f('GLC', 'ring3', (0, '$A', 1, True), (1, '$B', 1, False), (2, '$C', 1, False))
    S.append(('doc-dextran', _cfg([glc], False, masses={'GLC': 165},
                                  pr={'$A': 0.8, '$C': 0.1, '$B': 0.1},
                                  fr={'$A': {'$A': 0.0, '$C': 1.0, '$B': 0.0},
                                      '$B': {'$A': 1.0, '$C': 0.0, '$B': 0.0},
                                      '$C': {'$A': 1.0, '$C': 0.0, '$B': 0.0}}), [165 * 4, 1000, 2000]))
    # test_sampler.py shapes
    t1 = _f('test', 'ABC', (0, '<', 1, True), (1, '$', 1, False), (2, '>', 1, False))
    S.append(('test-1', _cfg([t1], False, masses={'test': 42}, pr={'>': 0.8, '<': 0.1, '$': 0.1}), [42 * 3, 200]))
    f2 = _f('frag2', 'XY', (0, '$', 2, True), (1, '<', 1, False))
    S.append(('test-order2', _cfg([t1, f2], False, masses={'test': 42, 'frag2': 10},
                                  pr={'>': 0.8, '<': 0.1, '$': 0.1}), [100, 250]))
    t4 = _f('test', 'ABC', (0, '<', 1, True), (2, '>', 1, False), (2, '$A', 1, False))
    ter = _f('ter', 'X', (0, '$B', 1, True))
    S.append(('test-terminal', _cfg([t4, ter], False, masses={'test': 1, 'ter': 1}, term=['$A', '$B'],
                                    pr={'>1': 0.1, '<1': 0.1, '$A1': 0.8, '$B1': 0.1},
                                    fr={'$A1': {'$B1': 1.0, '$A1': 0}}), [3, 8]))
    t6 = _f('test', 'ABC', (0, '<', 1, True), (2, '>', 1, False), (2, '>', 1, False), (2, '$A', 1, False))
    S.append(('test-terminal-keep', _cfg([t6, ter], False, masses={'test': 2, 'ter': 1}, term=['$A', '$B'], start='test',
                                         pr={'>1': 0.8, '<1': 0.3, '$A1': 0.3, '$B1': 0.001}), [6, 15]))
    # the assignment's own examples
    peo = _f('PEO', 'COC', (0, '>', 1, True), (2, '<', 1, False))
    oh2 = _f('OH', 'O', (0, '$', 1, True))
    S.append(('peo-oh', _cfg([peo, oh2], True), [100, 300]))
    cg = _f('A', 'XY', (0, '$', 1, True), (1, '$', 1, False))
    S.append(('coarse-homopolymer', _cfg([cg], False, masses={'A': 10}), [10, 30, 35]))
    # descriptors on aromatic atoms (ortho pair on a phenyl ring, both get consumed)
    ar = _f('P', 'PS', (5, '>A', 1, False), (6, '$', 1, False))
    arq = _f('Q', 'CP', (0, '$C', 1, True), (1, '<A', 1, False))
    S.append(('aromatic-ortho', _cfg([ar, arq], True, masses={'P': 1, 'Q': 10}, start='P'), [12, 25]))
    # higher orders: double-bond linkers, labelled directed descriptors of order 2
    e1 = _f('E', 'CC', (0, '$A', 2, True), (1, '$B', 1, False), (1, '$', 2, False))
    e2 = _f('K', 'C', (0, '$', 2, False), (0, '$', 1, False), (0, '$C', 1, False))
    S.append(('order-2-dollar', _cfg([e1, e2], True, pr={'$A2': 1, '$B': 0.5, '$2': 0.5, '$1': 0.2, '$C': 0}), [80, 200]))
    d1 = _f('D', 'CN', (0, '>X', 2, True), (0, '<', 1, False), (1, '>', 1, False))
    d2 = _f('L', 'ene', (0, '<X', 2, False), (1, '>X', 2, False))
    S.append(('order-2-directed', _cfg([d1, d2], True), [90, 250]))
    # reactivity tables with missing keys / all keys given with order digit
    S.append(('missing-keys', _cfg([t1], False, masses={'test': 7}, pr={'>': 1.0}), [21, 40]))
    S.append(('missing-keys-2', _cfg([t1, f2], False, masses={'test': 7, 'frag2': 3}, pr={'$1': 1.0, '<1': 2.0}), [20, 33]))
    return S


# ----------------------------------------------------------------------------------------------------
# systematic family: one two-node coarse fragment x one optional cap fragment, small descriptor alphabet
# ----------------------------------------------------------------------------------------------------
ALPHABET = [('$', 1), ('$A', 1), ('>', 1), ('<', 1), ('>A', 1), ('<A', 1), ('$', 2), ('>', 2), ('<', 2)]


def systematic(seeds, with_cap=True):
    """AB fragment carrying (d1 on A, d2 on B) for all pairs of the alphabet, optionally a one-node cap with
    one descriptor; reactivity tables: none / zero on d1 / only d2 listed; the cap's descriptor terminal or not;
    integer masses (M 5, T 2); targets 10 (an exact multiple) and 17; only configurations in which every
    '>' / '<' descriptor has its complement."""
    caps = [None] + (ALPHABET if with_cap else [])
    for (b1, o1), (b2, o2) in itertools.product(ALPHABET, ALPHABET):
        for cap in caps:
            main = _f('M', 'AB', (0, b1, o1, True), (1, b2, o2, False))
            frags = [main]
            masses = {'M': 5}
            if cap:
                frags = [main, _f('T', 'X', (0, cap[0], cap[1], False))]
                masses['T'] = 2
            d1, d2 = '%s%d' % (b1, o1), '%s%d' % (b2, o2)
            dc = '%s%d' % cap if cap else None
            keys = [d for d in (d1, d2, dc) if d]
            prs = [{}]
            if d1 != d2:
                prs.append({d1: 0.0, d2: 1.0, **({dc: 0.5} if dc and dc not in (d1, d2) else {})})
                prs.append({d2: 2.0})
            terms = [[]] + ([[dc]] if dc else [])
            for pr, term, seed in itertools.product(prs, terms, seeds):
                for target in (10, 17):
                    c = _cfg([dict(f, desc=[list(x) for x in f['desc']]) for f in frags], False, pr=dict(pr),
                             term=list(term), masses=dict(masses), start='M' if seed % 2 else None)
                    c['seed'] = seed
                    c['target'] = target
                    if closed(c):
                        yield finish(c)


# ----------------------------------------------------------------------------------------------------
# seeded random configurations
# ----------------------------------------------------------------------------------------------------
LABELS = ['', '', 'A', 'B', 'C']
NAMES = ['P', 'Q', 'R', 'T']
ORDERS = [1, 1, 1, 1, 1, 1, 2, 2, 3]
WEIGHTS = [0.1, 0.25, 0.5, 0.8, 1.0, 3.0]


def _spell(d, rng):
    """Order-1 descriptors are written with or without the trailing 1."""
    if d[-1] == '1' and rng.random() < 0.5:
        return d[:-1]
    return d


def _place(rng, fr, caps, all_atom, base=None, order=None):
    """Put one more descriptor on fragment fr if an atom has room. caps: remaining capacity per atom."""
    if len(fr['desc']) >= 4:
        return False
    want = order or rng.choice(ORDERS)
    atoms = [i for i, c in enumerate(caps) if c >= want]
    if not atoms:
        if order:
            return False
        want = 1
        atoms = [i for i, c in enumerate(caps) if c >= 1]
        if not atoms:
            return False
    atom = rng.choice(atoms)
    if base is None:
        base = rng.choice(['$', '$', '>', '<']) + rng.choice(LABELS)
    lead = atom == 0 and rng.random() < 0.6
    fr['desc'].append([atom, base, want, bool(lead)])
    caps[atom] -= want
    return True


def random_cfg(rng, max_seed, size='small'):
    all_atom = rng.random() < 0.5
    lib = LIB_AA if all_atom else LIB_CG
    nfr = rng.choice([1, 2, 2, 2, 3, 3, 4])
    # descriptors on aromatic atoms only in a small share of the configurations (see C16: the sampler mishandles them)
    arom_ok = rng.random() < 0.12
    frags, capl = [], []
    for i in range(nfr):
        caps = []
        while sum(caps) == 0:
            key = rng.choice(sorted(lib))
            caps = free_valences(key) if all_atom else [4] * len(lib[key][1])
            if all_atom and not arom_ok:
                for a in aromatic_atoms(key):
                    caps[a] = 0
        fr = {'name': NAMES[i], 'lib': key, 'desc': []}
        nd = rng.choice([1, 2, 2, 2, 3, 3, 4])
        for _ in range(nd):
            _place(rng, fr, caps, all_atom)
        frags.append(fr)
        capl.append(caps)
    # leading descriptors must come first in the per-fragment list for the rendering (they do: render sorts them out)
    # make '>' / '<' descriptors find a partner (mostly), so that most configurations can grow
    if rng.random() < 0.9:
        for _round in range(3):
            have = {(d[1], d[2]) for fr in frags for d in fr['desc']}
            for fr in frags:
                for d in fr['desc']:
                    if d[1][0] in '<>':
                        other = ('<' if d[1][0] == '>' else '>') + d[1][1:]
                        if (other, d[2]) not in have:
                            idx = list(range(nfr))
                            rng.shuffle(idx)
                            done = False
                            for j in idx:
                                if _place(rng, frags[j], capl[j], all_atom, base=other, order=d[2]):
                                    done = True
                                    break
                            if not done:
                                d[1] = '$' + d[1][1:]
                            have = {(x[1], x[2]) for f in frags for x in f['desc']}
    cfg = {'frags': frags, 'all_atom': all_atom}
    descs = all_descriptors(cfg)
    # masses
    if all_atom and rng.random() < 0.7:
        cfg['masses'] = None
    else:
        cfg['masses'] = {fr['name']: rng.choice([1, 2, 3, 5, 8, 10, 12.5, 20, 42]) for fr in frags}
    # polymer reactivities
    mode = rng.choice(['none', 'none', 'full', 'zeros', 'zeros', 'zeros', 'missing'])
    pr = {}
    if mode != 'none':
        for d in descs:
            pr[_spell(d, rng)] = rng.choice(WEIGHTS)
        ks = list(pr)
        if mode == 'zeros':
            for k in ks:
                if rng.random() < 0.35:
                    pr[k] = rng.choice([0, 0.0])
        if mode == 'missing':
            for k in ks:
                if rng.random() < 0.35 and len(pr) > 1:
                    del pr[k]
        if all(v == 0 for v in pr.values()) and rng.random() < 0.9:
            pr[rng.choice(list(pr))] = 1.0
    cfg['pr'] = pr
    # conditional reactivities
    fr_tab = {}
    if rng.random() < 0.55:
        for s in descs:
            if rng.random() < 0.5:
                cands = [p for p in descs if complementary(s, p)]
                tab = {}
                for p in cands:
                    r = rng.random()
                    if r < 0.3:
                        tab[_spell(p, rng)] = rng.choice([0, 0.0])
                    elif r < 0.9:
                        tab[_spell(p, rng)] = rng.choice(WEIGHTS)
                if rng.random() < 0.2 and descs:
                    tab.setdefault(_spell(rng.choice(descs), rng), rng.choice(WEIGHTS))   # irrelevant key
                if tab and all(tab.get(k, 0) == 0 for k in tab) and cands and rng.random() < 0.85:
                    tab[rng.choice(list(tab))] = 1.0
                fr_tab[_spell(s, rng)] = tab
    cfg['fr'] = fr_tab
    # terminal descriptors: mostly those of one-descriptor fragments ("caps"), sometimes any
    term = []
    if rng.random() < 0.5:
        capd = ['%s%d' % (fr['desc'][0][1], fr['desc'][0][2]) for fr in frags if len(fr['desc']) == 1]
        pool = capd if capd and rng.random() < 0.7 else descs
        for d in pool:
            if rng.random() < 0.6 and d not in term:
                term.append(d)
        if rng.random() < 0.3:
            extra = rng.choice(descs)
            if extra not in term:
                term.append(extra)
        term = [_spell(d, rng) for d in term]
    cfg['term'] = term
    cfg['seed'] = rng.randrange(max_seed + 1)
    cfg['start'] = rng.choice([fr['name'] for fr in frags]) if rng.random() < 0.3 else None
    # target weight
    if cfg['masses']:
        ms = list(cfg['masses'].values())
    else:
        ms = [30.0]
    ncopies = rng.choice([1, 2, 3, 4, 6, 8, 12] if size == 'small' else [2, 4, 8, 12, 20, 30])
    r = rng.random()
    if r < 0.35:
        cfg['target'] = rng.choice(ms) * ncopies             # exactly on a multiple of one mass
    elif r < 0.4:
        cfg['target'] = 0
    else:
        cfg['target'] = round(rng.uniform(0.2, 1.0) * max(ms) * ncopies, 1)
    return finish(cfg)


def structured_cases(tier, systematic_seeds=None):
    """Seed-independent part: hand-written scenarios x seeds x targets, then the systematic family."""
    nseed = 8 if tier == 'quick' else 40
    for label, part, targets in scenarios():
        for seed in range(nseed):
            for target in targets:
                c = json.loads(json.dumps(part))
                c['seed'] = seed
                c['target'] = target
                c['label'] = label
                yield finish(c)
    yield from systematic(systematic_seeds or (range(2) if tier == 'quick' else range(6)))


def random_cases(tier, seed, n):
    rng = random.Random('g4-%s-%d' % (tier, seed))
    max_seed = 15 if tier == 'quick' else 99
    for i in range(n):
        yield random_cfg(rng, max_seed, size='small' if (tier == 'quick' or i % 3) else 'large')


def _main():
    import logging
    logging.getLogger('pysmiles').setLevel(logging.ERROR)
    import warnings
    warnings.simplefilter('ignore')
    cfgs = json.load(sys.stdin)
    json.dump([run_hash(c) for c in cfgs], sys.stdout)


if __name__ == '__main__':
    _main()
