"""
G2 - molecules, cuts, renderings (DESIGN.md 3.2).

Everything a C01 / C09 / C10 / C11 case needs is produced here *by construction* and without calling
pysmiles or the CGsmiles writer:

* molecule model   {'a': [[element, charge, aromatic(0/1)], ...], 'b': [[i, j, order], ...]}   (order 1, 2, 3
  or 1.5 for a bond inside an aromatic ring); `parse_smiles` is a small independent SMILES reader used
  only to type in the fixed library.
* `small_molecules(n, alphabet)`  every connected molecule with exactly n heavy atoms over `alphabet`
  (atom types C N O S P F Cl Br [N+] [O-] [S-]), skeleton = any connected graph with at most one ring,
  bond orders 1-3 (ring bonds 1-2, at most one double bond in the ring, so that no ring of alternating
  single / double bonds arises: CGsmiles / pysmiles define such a ring as aromatic and would return 1.5),
  every atom within its usual valence (C 4, N 3, O 2, S 2, P 3, halogen 1, [N+] 4, [O-] 1, [S-] 1), up to
  isomorphism.  Deterministic, independent of any seed.
* `LIBRARY`  43 larger molecules incl. benzene / pyridine-like aromatic rings, fused and linked rings,
  charged centres, S(IV/VI), P(V), triple bonds.
* `connected_partitions(mol)`  every partition of the atoms into connected blocks (n <= 6),
  `sampled_partitions` for the library.
* `build(case)`  turns (molecule, partition, shared-atom choices, virtual nodes / zero-order edges,
  rendering parameters) into a CGsmiles string (or fragment string + base graph for
  `MoleculeResolver.from_graph`), together with everything that is known by construction: which coarse
  node key carries which fragment, which atoms each fragment contains, which atoms are shared.

Cut rule: every cut bond gets its own label; the two ends carry `$L`/`$L` or `>L`/`<L`; the bond order is
written as the bond symbol in front of a descriptor that follows its atom (`C=[$a]`) and behind a
descriptor that precedes the first atom of the fragment (`[$a]=C`) - read_fragments.strip_bonding_descriptors
and docs/source/syntax/fragments.rst.  A descriptor is written directly behind its atom, before or behind
the atom's ring-closure digits, or (first atom only) in front of the fragment.  Rendering mode pos='tail' (added for
C01, used by no other property module) writes the descriptors of an atom behind the atom's branches instead: every
neighbour of that atom is then written as a branch, `C(O)(C(F)Cl)[$a]`, so that the descriptor follows a `)` - and,
when the branch itself contains a branch, a `)` that closes a nested branch.  strip_bonding_descriptors attaches a
descriptor that follows `)` to the atom the branch started from (the SMILES rule for whatever follows a branch).

`NH_AROMATICS` (C01 only) are molecules whose usual spelling contains an aromatic `[nH]` (pyrrole, imidazole, indole,
2,2'-bipyrrole, 2-pyridone).  Each is typed in twice with the same atom order: the aromatic spelling that is *written*
into the fragments, and the Kekule structure with the N-H localised that the molecule *is* (five-membered rings have
exactly one such structure; a six-membered carbocycle of alternating bonds fused to it is declared aromatic as
everywhere else in G2).  Atoms that are written lower case but are localised in the molecule carry aromatic flag 2.
"""
import itertools
import random
import networkx as nx

from specs.valence import expected_h, heavy_bond_sum

# ----------------------------------------------------------------------------------------- atom types
MAXV = {'C': 4, 'N': 3, 'O': 2, 'S': 2, 'P': 3, 'F': 1, 'Cl': 1, 'Br': 1, 'N+': 4, 'O-': 1, 'S-': 1}
TYPE = {'C': ('C', 0), 'N': ('N', 0), 'O': ('O', 0), 'S': ('S', 0), 'P': ('P', 0), 'F': ('F', 0), 'Cl': ('Cl', 0),
        'Br': ('Br', 0), 'N+': ('N', 1), 'O-': ('O', -1), 'S-': ('S', -1)}
ALPHA_FULL = ['C', 'N', 'O', 'S', 'P', 'F', 'Cl', 'Br', 'N+', 'O-', 'S-']
ALPHA_MID = ['C', 'N', 'O', 'Cl', 'N+', 'O-']
ALPHA_CNO = ['C', 'N', 'O']
ALPHA_C = ['C']


# ----------------------------------------------------------------------------------------- SMILES reader (library only)
def parse_smiles(s):
    """Minimal OpenSMILES reader: organic-subset atoms, bracket atoms [El(Hn)(charge)], aromatic c n,
    bonds - = # :, branches, ring digits and %nn.  Bonds between two aromatic atoms without a symbol are 1.5."""
    atoms, bonds = [], []
    stack, prev, pending, rings = [], None, None, {}
    i, n = 0, len(s)
    sym = {'-': 1, '=': 2, '#': 3, ':': 1.5}

    def bond(a, b, o):
        if o is None:
            o = 1.5 if (atoms[a][2] and atoms[b][2]) else 1
        bonds.append([a, b, o])

    while i < n:
        c = s[i]
        if c == '(':
            stack.append(prev)
            i += 1
        elif c == ')':
            prev = stack.pop()
            i += 1
        elif c in sym:
            pending = sym[c]
            i += 1
        elif c.isdigit() or c == '%':
            if c == '%':
                rid = s[i + 1:i + 3]
                i += 3
            else:
                rid = c
                i += 1
            if rid in rings:
                a, o = rings.pop(rid)
                bond(a, prev, pending if pending is not None else o)
            else:
                rings[rid] = (prev, pending)
            pending = None
        else:
            if c == '[':
                j = s.index(']', i)
                body = s[i + 1:j]
                i = j + 1
                k = 2 if body[:2] in ('Cl', 'Br') else 1
                el = body[:k]
                rest = body[k:]
                arom = el.islower()
                chg = 0
                if rest.startswith('H'):
                    rest = rest[1:].lstrip('0123456789')
                if rest:
                    sign = 1 if rest[0] == '+' else -1
                    mag = rest[1:]
                    chg = sign * (int(mag) if mag.isdigit() else len(rest))
                atom = [el.capitalize(), chg, 1 if arom else 0]
            else:
                if s[i:i + 2] in ('Cl', 'Br'):
                    el = s[i:i + 2]
                    i += 2
                else:
                    el = c
                    i += 1
                atom = [el.capitalize(), 0, 1 if el.islower() else 0]
            atoms.append(atom)
            cur = len(atoms) - 1
            if prev is not None:
                bond(prev, cur, pending)
            pending = None
            prev = cur
    assert not rings and not stack, s
    return {'a': atoms, 'b': bonds}


LIBRARY_SMILES = [
    'c1ccccc1', 'Cc1ccccc1', 'c1ccncc1', 'Oc1ccccc1', 'Nc1ccccc1', 'Clc1ccccc1', 'OC(=O)c1ccccc1',
    '[O-]C(=O)c1ccccc1', '[NH3+]c1ccccc1', 'C[n+]1ccccc1', 'c1ccccc1-c1ccccc1', 'c1ccc2ccccc2c1', 'C=Cc1ccccc1',
    'Cc1ccc(C)cc1', 'Cc1ccncc1', 'c1cncnc1', 'c1ccc2CCCc2c1', '[O-][N+](=O)c1ccccc1', '[S-]c1ccccc1', 'Brc1ccc(F)cc1',
    'C1CCCCC1', 'C1=CCCCC1', 'C1CCOC1', 'CC1CC1', 'C1CCC2CCCCC2C1', 'C1CC2CCC1C2', 'O=C1CCCN1',
    '[NH3+]CC(=O)[O-]', 'CC(=O)[O-]', 'C[N+](C)(C)C', 'C[N+](C)(C)CCO', 'CS(=O)C', 'CS(=O)(=O)C', 'C[S-]',
    'CP(C)C', 'COP(=O)(OC)OC', 'CC#N', 'C=CC#C', 'C=CC(=O)O', 'COCCOCCOC', 'CC(C)(C)C', 'FC(F)(F)C(Cl)Br',
    'C[N+](=O)[O-]',
    # an upper-case atom directly followed by an aromatic atom whose letters together spell another element (Sc, Co)
    'CSc1ccc(O)cc1', 'OCc1ccccc1S', 'CCOc1ccccc1',
]
_LIB = None


def library():
    global _LIB
    if _LIB is None:
        _LIB = [(s, parse_smiles(s)) for s in LIBRARY_SMILES]
    return _LIB


# (aromatic spelling, localised structure) - same atom order in both, see module docstring
NH_AROMATIC_SMILES = [
    ('[nH]1cccc1', 'N1C=CC=C1'),                               # pyrrole
    ('Cc1ccc[nH]1', 'CC1=CC=CN1'),                             # 2-methylpyrrole
    ('c1c[nH]cn1', 'C1=CNC=N1'),                               # imidazole
    ('CCc1c[nH]cn1', 'CCC1=CNC=N1'),                           # 4-ethylimidazole (histidine side chain)
    ('CCc1c[nH]c2ccccc12', 'CCC1=CNc2ccccc12'),                # 3-ethylindole (tryptophan side chain)
    ('[nH]1cccc1-c1ccc[nH]1', 'N1C=CC=C1C1=CC=CN1'),           # 2,2'-bipyrrole
    ('O=c1[nH]cccc1C', 'O=C1NC=CC=C1C'),                       # 3-methyl-2-pyridone
    ('OC(=O)C(N)Cc1c[nH]cn1', 'OC(=O)C(N)CC1=CNC=N1'),         # histidine
]
_NHLIB = None
# aromatic nitrogen WITHOUT hydrogen that carries a substituent outside the ring (written lower case `n`): descriptions in which
# the exocyclic N-C bond is cut (the uncut spelling is rejected by pysmiles' kekulisation -- the package documents that class in
# its error message -- so only the cut forms are generated).  (aromatic spelling, localised structure, atoms (n, substituent))
NSUB_AROMATIC_SMILES = [
    ('Cn1cccc1', 'CN1C=CC=C1', [(1, 0)]),                       # N-methylpyrrole
    ('CCn1cccc1', 'CCN1C=CC=C1', [(2, 1)]),                     # N-ethylpyrrole
    ('Cn1ccc2ccccc12', 'CN1C=Cc2ccccc12', [(1, 0)]),            # 1-methylindole
]
_NSUBLIB = None


def nsub_library():
    global _NSUBLIB
    if _NSUBLIB is None:
        _NSUBLIB = [(w, nh_aromatic(w, k), cut) for w, k, cut in NSUB_AROMATIC_SMILES]
    return _NSUBLIB


def nh_aromatic(written, localised):
    """G2 molecule of an [nH] aromatic: atoms and bond orders of the localised structure; an atom that is lower case in
    the written spelling and upper case in the localised one gets aromatic flag 2 (written lower case, `[nH]` when it
    carries hydrogen; bonds between two lower-case ring atoms are written without a symbol whatever their order)."""
    w, k = parse_smiles(written), parse_smiles(localised)
    assert [a[:2] for a in w['a']] == [a[:2] for a in k['a']], (written, localised)
    assert sorted(tuple(sorted(b[:2])) for b in w['b']) == sorted(tuple(sorted(b[:2])) for b in k['b']), (written, localised)
    atoms = []
    for aw, ak in zip(w['a'], k['a']):
        assert aw[2] or not ak[2]
        atoms.append([ak[0], ak[1], 1 if ak[2] else (2 if aw[2] else 0)])
    return {'a': atoms, 'b': [list(b) for b in k['b']]}


def nh_library():
    global _NHLIB
    if _NHLIB is None:
        _NHLIB = [(w, nh_aromatic(w, k)) for w, k in NH_AROMATIC_SMILES]
    return _NHLIB


def ladder(k, double_rungs=()):
    """Two carbon chains of k atoms joined by k rungs ([k-1]-ladderane skeleton): the two-rail partition has k cut
    bonds between its two fragments (k = 1..4), rungs listed in double_rungs are double bonds."""
    atoms = [['C', 0, 0] for _ in range(2 * k)]
    bonds = [[i, i + 1, 1] for i in range(k - 1)] + [[k + i, k + i + 1, 1] for i in range(k - 1)]
    bonds += [[i, k + i, 2 if i in double_rungs else 1] for i in range(k)]
    return {'a': atoms, 'b': bonds}


def multi_cut_descriptions():
    """(molecule, partition) pairs with 2, 3 and 4 cut bonds between one pair of fragments, some of them double."""
    out = []
    for k in (2, 3, 4):
        for dbl in ((), (0,), (k - 1,)) + (((1,),) if k >= 3 else ()):
            if k == 2 and dbl:
                continue   # cyclobutene cut across its double bond is already in the small-molecule blocks
            mol = ladder(k, dbl)
            out.append((mol, [0] * k + [1] * k))
            if k >= 3:
                out.append((mol, [0] * k + [1] * (k - 1) + [2]))
    return out


# ----------------------------------------------------------------------------------------- exhaustive small molecules
_ATLAS = None


def _skeletons(n, max_cyc=1):
    global _ATLAS
    if _ATLAS is None:
        _ATLAS = [g for g in nx.graph_atlas_g() if 0 < g.number_of_nodes() <= 6 and nx.is_connected(g)]
    return [g for g in _ATLAS if g.number_of_nodes() == n and g.number_of_edges() - n + 1 <= max_cyc]


def small_molecules(n, alphabet, max_cyc=1):
    """All molecules with exactly n heavy atoms (see module docstring), each once up to isomorphism."""
    out = []
    for g in _skeletons(n, max_cyc):
        edges = sorted(tuple(sorted(e)) for e in g.edges)
        eset = {frozenset(e) for e in edges}
        autos = [p for p in itertools.permutations(range(n))
                 if all(frozenset((p[u], p[v])) in eset for u, v in edges)]
        ring_edges = set()
        for cyc in nx.cycle_basis(g):
            for a, b in zip(cyc, cyc[1:] + cyc[:1]):
                ring_edges.add(tuple(sorted((a, b))))
        seen = set()
        for orders in itertools.product(*[(1, 2) if e in ring_edges else (1, 2, 3) for e in edges]):
            if sum(1 for e, o in zip(edges, orders) if e in ring_edges and o == 2) > 1:
                continue
            need = [0] * n
            for (u, v), o in zip(edges, orders):
                need[u] += o
                need[v] += o
            opts = [[t for t in alphabet if MAXV[t] >= need[i]] for i in range(n)]
            for types in itertools.product(*opts):
                best = None
                for p in autos:
                    t = [None] * n
                    for i in range(n):
                        t[p[i]] = types[i]
                    oo = tuple(sorted((tuple(sorted((p[u], p[v]))), o) for (u, v), o in zip(edges, orders)))
                    k = (tuple(t), oo)
                    if best is None or k < best:
                        best = k
                if best in seen:
                    continue
                seen.add(best)
                out.append({'a': [[TYPE[t][0], TYPE[t][1], 0] for t in types],
                            'b': [[u, v, o] for (u, v), o in zip(edges, orders)]})
    return out


def is_ring_bond(mol, k):
    g = nx.Graph()
    g.add_nodes_from(range(len(mol['a'])))
    for idx, (u, v, o) in enumerate(mol['b']):
        if idx != k:
            g.add_edge(u, v)
    u, v, _ = mol['b'][k]
    return nx.has_path(g, u, v)


# ----------------------------------------------------------------------------------------- partitions
def _blocks_connected(mol, part):
    g = nx.Graph()
    g.add_nodes_from(range(len(mol['a'])))
    g.add_edges_from((u, v) for u, v, _ in mol['b'] if part[u] == part[v])
    return nx.number_connected_components(g) == max(part) + 1


def _pair_cuts_ok(mol, part, max_per_pair=4):
    cnt = {}
    for u, v, _ in mol['b']:
        if part[u] != part[v]:
            k = (min(part[u], part[v]), max(part[u], part[v]))
            cnt[k] = cnt.get(k, 0) + 1
    return all(c <= max_per_pair for c in cnt.values())


def _set_partitions(n):
    """Restricted growth strings: every set partition of range(n) exactly once."""
    def rec(i, cur, m):
        if i == n:
            yield list(cur)
            return
        for b in range(m + 1):
            cur.append(b)
            yield from rec(i + 1, cur, max(m, b + 1))
            cur.pop()
    if n == 0:
        return
    yield from rec(1, [0], 1)


def connected_partitions(mol):
    """Every partition into connected blocks with at most 4 cut bonds between two blocks (n <= 7)."""
    n = len(mol['a'])
    return [p for p in _set_partitions(n) if _blocks_connected(mol, p) and _pair_cuts_ok(mol, p)]


def _normalise(part):
    ren = {}
    return [ren.setdefault(b, len(ren)) for b in part]


def sampled_partitions(mol, rng, count, max_blocks=5):
    """Seeded connected partitions by region growing, plus the two-block partitions of every bridge bond,
    the one-block partition and (when allowed) the all-singletons partition."""
    n = len(mol['a'])
    adj = {i: [] for i in range(n)}
    for u, v, _ in mol['b']:
        adj[u].append(v)
        adj[v].append(u)
    seen, out = set(), []

    def add(p):
        p = _normalise(p)
        t = tuple(p)
        if t not in seen and _pair_cuts_ok(mol, p):
            seen.add(t)
            out.append(p)

    add([0] * n)
    for k, (u, v, _) in enumerate(mol['b']):
        if not is_ring_bond(mol, k):
            g = nx.Graph()
            g.add_nodes_from(range(n))
            g.add_edges_from((a, b) for j, (a, b, _) in enumerate(mol['b']) if j != k)
            side = nx.node_connected_component(g, u)
            add([0 if i in side else 1 for i in range(n)])
    add(list(range(n)))
    tries = 0
    while len(out) < count + n + 1 and tries < count * 6:
        tries += 1
        k = rng.randint(2, min(n, max_blocks))
        seeds = rng.sample(range(n), k)
        part = [None] * n
        frontier = []
        for b, s0 in enumerate(seeds):
            part[s0] = b
            frontier.append(s0)
        while frontier:
            a = frontier.pop(rng.randrange(len(frontier)))
            free = [x for x in adj[a] if part[x] is None]
            if not free:
                continue
            x = rng.choice(free)
            part[x] = part[a]
            frontier.append(x)
            frontier.append(a)
        if None in part:
            continue
        if _blocks_connected(mol, _normalise(part)):
            add(part)
    return out


# ----------------------------------------------------------------------------------------- fragments from a partition
def total_h(mol):
    """Hydrogens per atom in the complete molecule, from the independent valence table (None = outside it)."""
    orders = [[] for _ in mol['a']]
    for u, v, o in mol['b']:
        orders[u].append(o)
        orders[v].append(o)
    return [expected_h(a[0], a[1], heavy_bond_sum(orders[i])) for i, a in enumerate(mol['a'])]


def _label(style, k):
    if style == 'num':
        return str(k + 1)
    if style == 'alnum':
        return 'x%d' % (k + 1)
    if style == 'upper':
        return 'ABCDEFGHIJKLMNOPQRSTUVWXYZ'[k % 26] + ('' if k < 26 else str(k // 26))
    return 'abcdefghijklmnopqrstuvwxyz'[k % 26] + ('' if k < 26 else str(k // 26))


def make_fragments(mol, part, shares=(), triangle=False, kind='$', lab='alpha'):
    """Fragments of `mol` under `part`.

    shares: list of [bond_index, end] - the cut bond mol['b'][bond_index] is replaced by sharing its atom
            number `end` (0 or 1 of the bond's two atoms): the fragment of the *other* end receives a copy of
            that atom, bonded as in the molecule, the copy and the original both carry one `[!L]`.
    triangle: when one atom is copied into two or more other fragments, the copies are additionally marked as
            identical pairwise (label of their own, base-graph edge between the two fragments).

    Returns dict with
      frags:  list over fragments of {'atoms': [global atom index per local atom (copies repeat the index)],
              'copy': [bool per local atom], 'bonds': [[la, lb, order]], 'desc': {la: [[text, order], ...]}}
      edges:  {(fi, fj): order}   base-graph edges between fragments (fi < fj)
      n_pairs: number of `!` pairs, n_merge: atoms that disappear by merging
      member: {global atom: sorted fragment indices it belongs to}
    """
    n = len(mol['a'])
    nf = max(part) + 1
    frags = [{'atoms': [], 'copy': [], 'bonds': [], 'desc': {}} for _ in range(nf)]
    local = {}
    for a in range(n):
        f = frags[part[a]]
        local[a] = len(f['atoms'])
        f['atoms'].append(a)
        f['copy'].append(False)
    shared_bond = {}
    for bi, end in shares:
        shared_bond[bi] = end
    edges = {}
    member = {a: {part[a]} for a in range(n)}
    copies = {}          # (atom, fragment) -> local index of the copy
    lab_n = [0]

    def new_label():
        lab_n[0] += 1
        return _label(lab, lab_n[0] - 1)

    def add_desc(fi, la, text, order):
        frags[fi]['desc'].setdefault(la, []).append([text, order])

    def add_edge(fi, fj):
        k = (min(fi, fj), max(fi, fj))
        edges[k] = edges.get(k, 0) + 1

    n_pairs = 0
    cut_no = 0
    for bi, (u, v, o) in enumerate(mol['b']):
        fu, fv = part[u], part[v]
        if fu == fv:
            frags[fu]['bonds'].append([local[u], local[v], o])
            continue
        if bi in shared_bond:
            end = shared_bond[bi]
            x, y = (u, v) if end == 0 else (v, u)      # x is shared (copied) into the fragment of y
            fy = part[y]
            if (x, fy) not in copies:
                f = frags[fy]
                copies[(x, fy)] = len(f['atoms'])
                f['atoms'].append(x)
                f['copy'].append(True)
                member[x].add(fy)
                L = new_label()
                add_desc(fy, copies[(x, fy)], '!' + L, 1)
                add_desc(part[x], local[x], '!' + L, 1)
                add_edge(part[x], fy)
                n_pairs += 1
            frags[fy]['bonds'].append([local[y], copies[(x, fy)], o])
            continue
        L = new_label()
        kk = kind if kind in ('$', '>', '<') else ('$', '>', '<')[cut_no % 3]
        cut_no += 1
        if o == 2 and mol['a'][u][2] and mol['a'][v][2]:
            o = 1   # a localised double bond inside a ring that is written in lower case (flag 2): the cut is written plain
        if kk == '$':
            tu = tv = '$' + L
        elif kk == '>':
            tu, tv = '>' + L, '<' + L
        else:
            tu, tv = '<' + L, '>' + L
        add_desc(fu, local[u], tu, o)
        add_desc(fv, local[v], tv, o)
        add_edge(fu, fv)
    n_merge = n_pairs
    if triangle:
        by_atom = {}
        for (x, fy), la in copies.items():
            by_atom.setdefault(x, []).append((fy, la))
        for x, lst in by_atom.items():
            for (f1, l1), (f2, l2) in itertools.combinations(sorted(lst), 2):
                L = new_label()
                add_desc(f1, l1, '!' + L, 1)
                add_desc(f2, l2, '!' + L, 1)
                add_edge(f1, f2)
                n_pairs += 1
    return {'frags': frags, 'edges': edges, 'n_pairs': n_pairs, 'n_merge': n_merge,
            'member': {a: sorted(m) for a, m in member.items()}}


# ----------------------------------------------------------------------------------------- fragment SMILES renderer
_BSYM = {1: '', 2: '=', 3: '#', 1.5: ''}


def _atom_token(atom, nh, style):
    el, chg, arom = atom
    sym = el.lower() if arom else el
    if arom == 2 and el != 'C' and nh:
        return '[' + sym + ('H' if nh == 1 else 'H%d' % nh) + ']'     # pyrrole-type [nH]: the hydrogen is always written
    if chg == 0 and (style != 'bracket' or arom):
        return sym
    h = ''
    if style != 'bare' and nh:
        h = 'H' if nh == 1 else 'H%d' % nh
    c = ''
    if chg:
        c = ('+' if chg > 0 else '-') * 1 + ('' if abs(chg) == 1 else str(abs(chg)))
    return '[' + sym + h + c + ']'


def _bond_symbol(order, arom_a, arom_b):
    if order == 1 and arom_a and arom_b:
        return '-'
    return _BSYM[order]


def _desc_text(d, leading=False):
    text, order = d
    s = {1: '', 2: '=', 3: '#', 1.5: ''}[order]   # a cut aromatic bond is written plain: both atoms are lower case
    return ('[' + text + ']' + s) if leading else (s + '[' + text + ']')


def render_fragment(mol, frag, nh, start=0, nbr='asc', digit='reuse', rsym='open', pos='before', atom='plain'):
    """Independent SMILES writer for one fragment.

    start  local index of the first atom written          nbr   'asc' | 'desc' | int seed: neighbour order (decides
    digit  'reuse' | 'fresh' | 'from5' | 'percent'               branch order and which ring bond becomes the closure)
    rsym   'open' | 'close' | 'both': where the symbol of a non-single ring-closure bond is written
    pos    'before' | 'after' | 'split' | 'lead': descriptors before / behind the ring digits, first before and rest
           behind, or ('lead') in front of the fragment for the first atom and 'before' elsewhere; 'tail': behind the
           atom's branches (all its neighbours are then written as branches), 'before' for atoms without neighbours
    atom   'plain' | 'bracket' (every non-aromatic atom as bracket atom with its H count) | 'bare' (charged atoms
           without H count)
    """
    na = len(frag['atoms'])
    adj = {a: [] for a in range(na)}
    order = {}
    for a, b, o in frag['bonds']:
        adj[a].append(b)
        adj[b].append(a)
        order[(a, b)] = order[(b, a)] = o

    def ordered(a):
        lst = sorted(adj[a])
        if nbr == 'desc':
            lst.reverse()
        elif nbr != 'asc':
            random.Random(int(nbr) * 7919 + a).shuffle(lst)
        return lst

    children = {a: [] for a in range(na)}
    opens = {a: [] for a in range(na)}     # ring ids opened at a
    closes = {a: [] for a in range(na)}
    ring_of = {}
    visited = []
    seen = set()

    def dfs(a, parent):
        seen.add(a)
        visited.append(a)
        for b in ordered(a):
            if b == parent:
                continue
            if b in seen:
                key = frozenset((a, b))
                if key not in ring_of:
                    rid = len(ring_of)
                    ring_of[key] = rid
                    opens[b].append((rid, a))
                    closes[a].append((rid, b))
            else:
                children[a].append(b)
                dfs(b, a)

    dfs(start, None)
    assert len(visited) == na, 'fragment not connected'

    free = list(range(1, 100))
    counter = [5 if digit == 'from5' else (10 if digit == 'percent' else 1)]
    assigned = {}

    def alloc():
        if digit == 'reuse':
            return free.pop(0)
        d = counter[0]
        counter[0] += 1
        return d

    def fmt(d):
        return str(d) if d < 10 else '%%%02d' % d

    def is_arom(a):
        return bool(mol['a'][frag['atoms'][a]][2])

    # bonds between two lower-case atoms one of which is localised (flag 2): no symbol inside the ring, `-` outside
    lower_ring = set()
    if any(mol['a'][g][2] == 2 for g in frag['atoms']):
        for k, (u, v, o) in enumerate(mol['b']):
            if mol['a'][u][2] and mol['a'][v][2] and 2 in (mol['a'][u][2], mol['a'][v][2]) and is_ring_bond(mol, k):
                lower_ring.add(frozenset((u, v)))

    def bsym(a, b):
        if frozenset((frag['atoms'][a], frag['atoms'][b])) in lower_ring:
            return ''
        return _bond_symbol(order[(a, b)], is_arom(a), is_arom(b))

    def write(a, lead_ok):
        g = frag['atoms'][a]
        tok = _atom_token(mol['a'][g], nh[g], atom)
        descs = frag['desc'].get(a, [])
        before, after, lead = [], [], []
        if pos == 'lead' and lead_ok:
            lead = descs
        elif pos == 'after':
            after = descs
        elif pos == 'split':
            before, after = descs[:1], descs[1:]
        else:
            before = descs
        ring = ''
        released = []
        for rid, other in closes[a]:
            d = assigned[rid]
            s = bsym(a, other)
            ring += (s if rsym in ('close', 'both') else '') + fmt(d)
            released.append(d)
        for rid, other in opens[a]:
            d = alloc()
            assigned[rid] = d
            s = bsym(a, other)
            ring += (s if rsym in ('open', 'both') else '') + fmt(d)
        if digit == 'reuse':
            for d in released:
                free.append(d)
            free.sort()
        kids = children[a]
        tail = []
        if pos == 'tail' and kids and descs:
            tail, before = descs, []
        out = ''.join(_desc_text(d, True) for d in lead) + tok + ''.join(_desc_text(d) for d in before) + ring \
            + ''.join(_desc_text(d) for d in after)
        for i, c in enumerate(kids):
            s = bsym(a, c)
            sub = write(c, False)
            out += ('(' + s + sub + ')') if (i < len(kids) - 1 or tail) else (s + sub)
        return out + ''.join(_desc_text(d) for d in tail)

    return write(start, True)


def mol_as_fragment(mol):
    return {'atoms': list(range(len(mol['a']))), 'copy': [False] * len(mol['a']),
            'bonds': [list(b) for b in mol['b']], 'desc': {}}


def reference_string(mol):
    """The uncut molecule as a single fragment (canonical rendering)."""
    return '{[#M]}.{#M=' + render_fragment(mol, mol_as_fragment(mol), total_h(mol)) + '}'


# ----------------------------------------------------------------------------------------- base-graph writer
_OSYM = {0: '.', 1: '', 2: '=', 3: '#', 4: '$'}


def render_base(names, edges, priority):
    """CGsmiles base graph: DFS from priority[0]; unvisited neighbours are taken in `priority` order, the last one
    continues the chain, the others are branches (so two closing braces never follow each other); other edges are
    ring bonds whose order symbol is written at the opening marker.  Returns (string, node ids in order of
    appearance).  names: {node: name}; edges: {(u, v): order}."""
    rank = {n: i for i, n in enumerate(priority)}
    adj = {n: [] for n in names}
    order = {}
    for (u, v), o in edges.items():
        adj[u].append(v)
        adj[v].append(u)
        order[(u, v)] = order[(v, u)] = o
    for n in adj:
        adj[n].sort(key=lambda x: rank[x])
    children = {n: [] for n in names}
    opens = {n: [] for n in names}
    closes = {n: [] for n in names}
    ring_of = {}
    seen, visited = set(), []

    def dfs(a, parent):
        seen.add(a)
        visited.append(a)
        for b in adj[a]:
            if b == parent:
                continue
            if b in seen:
                key = frozenset((a, b))
                if key not in ring_of:
                    ring_of[key] = len(ring_of)
                    opens[b].append((ring_of[key], a))
                    closes[a].append((ring_of[key], b))
            else:
                children[a].append(b)
                dfs(b, a)

    dfs(priority[0], None)
    assert len(visited) == len(names), 'base graph not connected'
    free = list(range(1, 10))
    assigned = {}

    def write(a):
        out = '[#' + names[a] + ']'
        released = []
        for rid, other in closes[a]:
            out += str(assigned[rid])
            released.append(assigned[rid])
        for rid, other in opens[a]:
            d = free.pop(0)
            assigned[rid] = d
            out += _OSYM[order[(a, other)]] + str(d)
        free.extend(released)
        free.sort()
        kids = children[a]
        for i, c in enumerate(kids):
            s = _OSYM[order[(a, c)]]
            out += (s + '(' + write(c) + ')') if i < len(kids) - 1 else (s + write(c))
        return out

    return '{' + write(priority[0]) + '}', visited


# ----------------------------------------------------------------------------------------- case -> CGsmiles
FRAG_NAMES = ['A', 'B', 'D', 'E', 'G', 'J', 'K', 'L', 'M', 'Q', 'R', 'T', 'U', 'W', 'X', 'Y', 'Z']


def frag_name(i):
    return FRAG_NAMES[i] if i < len(FRAG_NAMES) else 'F%d' % i


def build(case):
    """case: {'mol', 'part', optional 'shares', 'tri', 'virt', 'r': rendering parameters}.

    r keys (all optional): starts [local start atom per fragment], nbr, digit, rsym, pos, atom, kind, lab,
      base: priority list over base nodes (fragment indices 0..nf-1, virtual nodes nf, nf+1, ...),
      ctor: 'string' | 'graph'.
    virt: {'n': number of virtual nodes, 'edges': [[u, v, order], ...]} extra base-graph edges; nodes >= nf are
      virtual (no fragment).  Zero-order edges between real nodes are listed there too.

    Returns {'cg': full string (ctor 'string'), 'frag_str', 'base_str', 'meta': (nodes, edges) for ctor 'graph',
             'order': base nodes in key order (key k = position), 'plan': make_fragments(...) result, 'nf'}.
    """
    mol, part = case['mol'], case['part']
    r = case.get('r', {})
    plan = make_fragments(mol, part, case.get('shares', ()), case.get('tri', False), r.get('kind', '$'),
                          r.get('lab', 'alpha'))
    nf = len(plan['frags'])
    nh = total_h(mol)
    starts = r.get('starts') or [0] * nf
    texts = []
    for fi, frag in enumerate(plan['frags']):
        st = starts[fi] % len(frag['atoms'])
        texts.append(render_fragment(mol, frag, nh, start=st, nbr=r.get('nbr', 'asc'), digit=r.get('digit', 'reuse'),
                                     rsym=r.get('rsym', 'open'), pos=r.get('pos', 'before'), atom=r.get('atom', 'plain')))
    names = {i: frag_name(i) for i in range(nf)}
    edges = dict(plan['edges'])
    virt = case.get('virt') or {}
    nv = virt.get('n', 0)
    for j in range(nv):
        names[nf + j] = 'V%d' % (j + 1) if nv > 1 else 'V'
    for u, v, o in virt.get('edges', []):
        edges[(min(u, v), max(u, v))] = o
    priority = r.get('base') or list(range(nf + nv))
    forder = r.get('forder') or list(range(nf))
    frag_str = '{' + ','.join('#%s=%s' % (names[i], texts[i]) for i in forder) + '}'
    out = {'plan': plan, 'nf': nf, 'nv': nv, 'frag_str': frag_str, 'names': names, 'edges': edges, 'texts': texts}
    if r.get('ctor', 'string') == 'graph':
        out['order'] = list(priority)
        out['meta'] = ([[k, names[n]] for k, n in enumerate(priority)],
                       [[priority.index(u), priority.index(v), o] for (u, v), o in sorted(edges.items())])
        out['base_str'] = None
        out['cg'] = None
    else:
        base_str, visited = render_base(names, edges, priority)
        out['order'] = visited
        out['base_str'] = base_str
        out['cg'] = base_str + '.' + frag_str
    return out


# ----------------------------------------------------------------------------------------- two levels of fragments (C10)
def render_cg_fragment(names, frag, start=0, lead=False):
    """Coarse-level fragment text: nodes `[#name]`, the fragment's bonds (a tree of order-1 bonds), descriptors directly
    behind their node - or, with lead=True, in front of the first node.  Branches as in render_base: the last
    neighbour continues the chain, so two closing braces never follow each other."""
    na = len(frag['atoms'])
    adj = {a: [] for a in range(na)}
    for a, b, o in frag['bonds']:
        assert o == 1
        adj[a].append(b)
        adj[b].append(a)
    assert len(frag['bonds']) == na - 1, 'coarse fragment is not a tree'
    seen = set()

    def write(a, first):
        seen.add(a)
        descs = ''.join('[' + t + ']' for t, o in frag['desc'].get(a, []))
        tok = '[#' + names[frag['atoms'][a]] + ']'
        out = (descs + tok) if (first and lead) else (tok + descs)
        kids = [b for b in sorted(adj[a]) if b not in seen]
        for i, c in enumerate(kids):
            sub = write(c, False)
            out += ('(' + sub + ')') if i < len(kids) - 1 else sub
        return out

    text = write(start % na, True)
    assert len(seen) == na, 'coarse fragment not connected'
    return text


def block_name(i):
    return 'X%d' % (i + 1)


def build_two_level(case):
    """A molecule described on three levels: blocks . beads . atoms.

    case: {'mol', 'part' (atom -> bead), 'shares' (atom level, as in build), 'part1' (bead -> block), 'shares1' (bead
    level: [index into the sorted bead-graph edges, end]), 'r' (rendering of the atom-level fragments; r['base'] is not
    used), 'base1': priority list over the blocks, 'starts1': start bead per block, 'lead1': bool}.
    The bead graph is the `edges` result of make_fragments for the atom level; it is used as the "molecule" of a second
    make_fragments call that cuts it into blocks and replaces bead-level cuts by shared beads.
    Returns None when the description is outside the family (a bead-graph or block-graph edge of order > 1, a block
    that is not a tree), else {'two': blocks.beads.atoms string, 'one': beads.atoms string (the ordinary one-level
    description with the SAME atom-level fragments), 'plan2', 'plan1', 'beads': bead names, 'order0': blocks in key
    order of the top graph, 'order1': beads in key order of the one-level base graph, 'bead_edges'}."""
    mol, part = case['mol'], case['part']
    r = dict(case.get('r', {}))
    r.pop('base', None)
    r['ctor'] = 'string'
    one = build({'mol': mol, 'part': part, 'shares': case.get('shares', ()), 'r': r})
    plan2 = one['plan']
    if any(o != 1 for o in plan2['edges'].values()):
        return None
    nb = one['nf']
    bead_edges = sorted(plan2['edges'])
    beadmol = {'a': [[frag_name(i), 0, 0] for i in range(nb)], 'b': [[u, v, 1] for u, v in bead_edges]}
    plan1 = make_fragments(beadmol, case['part1'], case.get('shares1', ()), False, r.get('kind', '$'), 'upper')
    if any(o != 1 for o in plan1['edges'].values()) or any(len(f['bonds']) != len(f['atoms']) - 1 for f in plan1['frags']):
        return None
    nblk = len(plan1['frags'])
    bnames = {i: frag_name(i) for i in range(nb)}
    starts1 = case.get('starts1') or [0] * nblk
    texts = [render_cg_fragment(bnames, f, starts1[i], bool(case.get('lead1'))) for i, f in enumerate(plan1['frags'])]
    xnames = {i: block_name(i) for i in range(nblk)}
    base_str, visited = render_base(xnames, plan1['edges'], case.get('base1') or list(range(nblk)))
    mid = '{' + ','.join('#%s=%s' % (xnames[i], texts[i]) for i in range(nblk)) + '}'
    return {'two': base_str + '.' + mid + '.' + one['frag_str'], 'one': one['cg'], 'plan2': plan2, 'plan1': plan1,
            'beads': bnames, 'blocks': xnames, 'order0': visited, 'order1': one['order'], 'bead_edges': bead_edges,
            'base_str': base_str, 'names': xnames, 'edges': plan1['edges'], 'order': visited, 'cg': base_str, 'frag_str': one['frag_str'],
            'one_built': one}


def meta_graph(meta):
    g = nx.Graph()
    for k, name in meta[0]:
        g.add_node(k, fragname=name)
    for u, v, o in meta[1]:
        g.add_edge(u, v, order=o)
    return g


def describe(built):
    """Text shown in failure details."""
    if built['cg'] is not None:
        return built['cg']
    return 'from_graph(%s, nodes=%s, edges=%s)' % (built['frag_str'], built['meta'][0], built['meta'][1])


# ----------------------------------------------------------------------------------------- rendering plans
def n_cut_fragments(part):
    return max(part) + 1


def fragment_sizes(part):
    sizes = {}
    for b in part:
        sizes[b] = sizes.get(b, 0) + 1
    return [sizes[i] for i in range(len(sizes))]


def has_ring_in_fragment(mol, part):
    nf = max(part) + 1
    ne = [0] * nf
    nn = [0] * nf
    for b in part:
        nn[b] += 1
    for u, v, _ in mol['b']:
        if part[u] == part[v]:
            ne[part[u]] += 1
    return any(ne[i] >= nn[i] for i in range(nf))


def base_orders(nf, edges_keys, rng=None, limit=None):
    """Priority lists over the base nodes: all permutations for nf <= 3, else identity, reversed and seeded ones."""
    if nf <= 3:
        return [list(p) for p in itertools.permutations(range(nf))]
    out = [list(range(nf)), list(range(nf))[::-1]]
    if rng is not None:
        for _ in range(limit or 1):
            p = list(range(nf))
            rng.shuffle(p)
            if p not in out:
                out.append(p)
    return out


def exhaustive_renderings(mol, part, sizes_cap=4):
    """Every combination of the rendering dimensions that can change the text of this (molecule, partition):
    start atoms (all), neighbour order (asc/desc), ring-digit mode and ring-symbol placement (only when a fragment
    keeps a ring), descriptor position (before / after ring digits / leading), descriptor kinds ($, ><, <>)."""
    sizes = fragment_sizes(part)
    nf = len(sizes)
    ring = has_ring_in_fragment(mol, part)
    branched = any(sum(1 for u, v, _ in mol['b'] if part[u] == part[v] and a in (u, v)) >= 2 for a in range(len(part)))
    starts = list(itertools.product(*[range(s) for s in sizes]))
    nbrs = ['asc', 'desc'] if (ring or branched) else ['asc']
    digits = ['reuse', 'percent'] if ring else ['reuse']
    rsyms = ['open', 'close', 'both'] if ring and any(o == 2 and part[u] == part[v] for u, v, o in mol['b']) else ['open']
    poss = (['before', 'after', 'lead', 'split'] if ring else ['before', 'lead']) if nf > 1 else ['before']
    kinds = ['$', '>', '<'] if nf > 1 else ['$']
    for st in starts:
        for nb in nbrs:
            for dg in digits:
                for rs in rsyms:
                    for ps in poss:
                        for kd in kinds:
                            yield {'starts': list(st), 'nbr': nb, 'digit': dg, 'rsym': rs, 'pos': ps, 'kind': kd}


def tail_renderings(mol, part, cap=None):
    """Renderings with the descriptors behind the branches of their atom (pos='tail'): every combination of start atoms
    (the first `cap` combinations in lexicographic order when given - the start atom decides which neighbours are
    branches and how deep they nest) x neighbour order asc / desc; descriptor kind and ring-digit mode cycle.  Only
    renderings in which at least one descriptor really follows a `)` are of interest: the caller filters on the text."""
    sizes = fragment_sizes(part)
    starts = itertools.product(*[range(s) for s in sizes])
    if cap:
        starts = itertools.islice(starts, cap)
    i = 0
    for st in starts:
        for nb in ('asc', 'desc'):
            yield {'starts': list(st), 'nbr': nb, 'digit': ('reuse', 'percent')[i % 2], 'rsym': _RSYMS[i % 3], 'pos': 'tail',
                   'kind': ('$', '>', '<')[i % 3]}
            i += 1


_DIGITS = ['reuse', 'fresh', 'from5', 'percent']
_RSYMS = ['open', 'close', 'both']
_POSS = ['before', 'after', 'lead', 'split']
_KINDS = ['$', '>', '<', 'mix']
_LABS = ['alpha', 'num', 'alnum', 'upper']
_ATOMS = ['plain', 'plain', 'bracket', 'bare']


def covering_renderings(mol, part, k, rng):
    """k renderings that together visit every value of every dimension as evenly as possible: rendering i takes
    value (i + offset) of each dimension, start atoms and neighbour seeds are drawn from rng."""
    sizes = fragment_sizes(part)
    off = rng.randrange(12)
    for i in range(k):
        j = i + off
        yield {'starts': [rng.randrange(s) for s in sizes], 'nbr': ['asc', 'desc', rng.randrange(1, 1000)][j % 3],
               'digit': _DIGITS[j % 4], 'rsym': _RSYMS[(j // 2) % 3], 'pos': _POSS[j % 4],
               'kind': _KINDS[(j // 3) % 4], 'lab': _LABS[(j // 2) % 4], 'atom': _ATOMS[(j // 4) % 4]}


def mol_key(mol):
    return ';'.join('%s%+d%s' % (a[0], a[1], ('a' if a[2] == 1 else 'p') if a[2] else '') for a in mol['a']) + '|' + \
        ';'.join('%d-%d:%s' % (u, v, o) for u, v, o in mol['b'])
