"""
Resolved-molecule inputs and node relabelings for the coordinate / layout properties (C18, C19).

* `cgsmiles_strings(tier, seed, ...)` yields CGsmiles strings `{base graph}.{fragments}` whose resolution is a
  connected all-atom molecule: single fragments, ordered pairs, a fixed hand-written list (shared atoms `!`,
  rings of beads, branches, aromatic rings split over beads, charged atoms, E/Z bonds), then seeded random
  assemblies (random trees of beads with at most one ring of beads, fragments drawn from pools by number of
  bonding sites; chains whose neighbours share an atom through `!`).  Optional per-atom weight annotations
  (`[C;0.5]`, `[O;w=2]`, `[NH3+;w=3]`).  The exhaustive / fixed part does not depend on the seed.
* `relabel(G, spec)` builds a copy of a graph with other node keys and / or another node insertion order;
  node-referencing attributes (`ez_isomer`) are mapped, `relabel_pair(cg, aa, spec)` keeps the beads' `graph`
  attribute consistent with the relabelled atoms.

Nothing here imports cgsmiles: the strings are plain text, the graphs plain networkx.

Scope (see props/C18.py): five-membered heteroaromatics (pyrrole, furan, thiophene, indole) are not generated.
CGsmiles / pysmiles deliberately keep them in Kekule form, RDKit re-perceives them as aromatic.
"""
import copy
import random
import networkx as nx

# ------------------------------------------------------------------------------------------ fragment pools
# number of `$` sites -> fragment texts.  A descriptor written after an atom belongs to that atom, a leading one
# to the first atom.  Surplus descriptors are legal: the resolver caps them with hydrogens.
SITES1 = ['[$]O', '[$]C', '[$]N', '[$]C(=O)O', '[$]C#N', '[$]c1ccccc1', '[$][N+](C)(C)C', '[$]S(=O)(=O)C', '[$]F',
          '[$]Cl', '[$]Br', '[$]C(=O)[O-]', '[$]C[NH3+]', '[$]C(C)(C)C', '[$]c1ccncc1', '[$]C=O', '[$]C1CC1',
          '[$]OP(=O)(O)O', '[$][Si](C)(C)C', '[$]I']
SITES2 = ['[$]CC[$]', '[$]COC[$]', '[$]CC(C)[$]', '[$]c1ccc(cc1)[$]', '[$]C(=O)N[$]', '[$]C=C[$]', '[$]CC([NH3+])[$]',
          '[$]CC(C(=O)[O-])[$]', '[$]C1CCC(CC1)[$]', '[$]c1ccc2cc(ccc2c1)[$]', '[$]CSC[$]', '[$]CC(Cl)[$]',
          '[$]CC(F)(F)[$]', '[$]c1cnc(cc1)[$]', '[$]C#C[$]', '[$]CS(=O)(=O)C[$]', '[$]C[N+](C)(C)[$]',
          '[$]C1=CC=C(C=C1)[$]', '[$]C1CC1[$]', '[$]CC(=O)OC[$]', '[$]N[$]', '[$]CC(c1ccccc1)[$]', '[$]C[$]',
          '[$]CC(C#N)[$]', '[$]C(=O)c1ccc(cc1)C(=O)[$]', '[$]OCCO[$]']
SITES3 = ['C[$][$][$]', '[$]CC[$][$]', 'N[$][$][$]', 'c1[$]cc[$]cc[$]c1', '[$]CC([$])C[$]', '[$]C(=O)N[$][$]',
          '[$]CC(C[$])(C)C[$]']
# pools that make sane small rings of beads
RING_OK = ['[$]CC[$]', '[$]COC[$]', '[$]CC(C)[$]', '[$]C(=O)N[$]', '[$]CSC[$]', '[$]c1ccc(cc1)[$]', '[$]C1CCC(CC1)[$]',
           '[$]CC(=O)OC[$]', '[$]C[$]', '[$]N[$]', '[$]CC(Cl)[$]']
# bodies whose first and last atom are aliphatic carbons carrying hydrogens: can be joined by `$` or shared by `!`
SHARE_BODY = ['CC', 'CCC', 'CC(=O)C', 'Cc1ccc(cc1)C', 'CNC', 'COC', 'CC(C)C', 'CC([NH3+])C', 'CSC', 'CC=CC',
              'CC(C(=O)[O-])C', 'CC1CCC(CC1)C']
SHARE_END = ['CO', 'CC(=O)O', 'Cc1ccccc1', 'CC#N', 'CCl', 'CC', 'CN', 'CC[NH3+]']

# complete strings written by hand (docs / test style, shared atoms, rings of beads, grafts, E/Z)
FIXED = [
    '{[#A][#B]}.{#A=CC[$],#B=[$]O}',
    '{[#A][#B]}.{#A=c1ccccc1[$],#B=[$]C(=O)[O-]}',
    '{[#A][#B]}.{#A=[NH3+]C[!]C,#B=[!]CC(=O)O}',
    '{[#TC5]1[#TC5][#TC5]1}.{#TC5=[$]cc[$]}',
    '{[#SC2][#SC2][#SP1]}.{#SC2=[$]CCC[$],#SP1=[$]CCO}',
    '{[#SC4]1[#TC5][#TC5]1}.{#SC4=Cc(c[!])c[!],#TC5=[!]ccc[!]}',
    '{[#PEO]|4}.{#PEO=[$]COC[$]}',
    '{[#OH][#PEO]|3[#OH]}.{#PEO=[$]COC[$],#OH=[$]O}',
    '{[#PS]|3}.{#PS=[$]CC[$]c1ccccc1}',
    '{[#A]([#B])[#C]}.{#A=c1[$]cc[$]cc[$]c1,#B=[$]C,#C=[$]O}',
    '{[#A]([#B])([#C])[#D]}.{#A=C[$][$][$],#B=[$]C,#C=[$]O,#D=[$]N}',
    '{[#A][#B][#C]}.{#A=[!]CC[!],#B=[!]CCC[!],#C=[!]CO}',
    '{[#A]1[#B][#C]1}.{#A=[$]CC[$],#B=[$]C[$],#C=[$]N[$]}',
    '{[#A][#B][#A]}.{#A=[$]CC[$],#B=[$]c1ccc(cc1)[$]}',
    '{[#A]([#B][#B])[#A]([#B][#B])[#A]}.{#A=[$]CC[$][$],#B=[$]COC[$]}',
    '{[#A][#B]}.{#A=[>]CC[<],#B=[>]CO}',
    '{[#A][#B][#C]}.{#A=C[$a],#B=[$a]C(=O)N[$b],#C=[$b]C}',
    '{[#A][#B]}.{#A=CC=[$],#B=[$]=CC}',
    '{[#A][#B]}.{#A=CC#[$],#B=[$]#CC}',
    '{[#A]1[#A][#A][#A][#A][#A]1}.{#A=[$]C[$]}',
    '{[#A][#B]1[#C][#D]1}.{#A=C[$],#B=[$]C[$][$],#C=[$]CC[$],#D=[$]O[$]}',
]
STEREO = [
    '{[#A]}.{#A=F/C=C/Cl}',
    '{[#A]}.{#A=F/C=C\\Cl}',
    '{[#A][#B]}.{#A=F/C=[$],#B=[$]=C/Cl}',
    '{[#A][#B]}.{#A=F/C=[$],#B=[$]=C\\Cl}',
    '{[#A]}.{#A=C/C=C\\C=C/C}',
    '{[#A][#B][#A]}.{#A=[$]C,#B=[$]C/C=C/C[$]}',
    '{[#A][#B][#A]}.{#A=[$]CC,#B=[$]C/C=C\\C[$]}',
    '{[#A][#B]|3[#A]}.{#A=[$]C,#B=[$]C/C=C\\C[$]}',
    '{[#A][#B]}.{#A=[$]c1ccccc1,#B=[$]/C=C/c1ccccc1}',
    '{[#A][#B][#C]}.{#A=CC[$],#B=[$]/C=C(/C)[$],#C=[$]CO}',
    '{[#A][#B]}.{#A=OC(=O)C/C=C\\C[$],#B=[$]C(=O)O}',
    # marked double bonds INSIDE a ring (removing a substituent bond does not split the molecule)
    '{[#A]}.{#A=C1CCC/C=C\\CC1}',
    '{[#A]}.{#A=C1CCCC/C=C/CCCCC1}',
]
WEIGHTS = ['0.5', '2', '3', '0.25', '1.5', '10', '0.1']
NAMES = ['A', 'B', 'C', 'D', 'E', 'F', 'G', 'H', 'I', 'J']


# ------------------------------------------------------------------------------------------ weight annotations
def annotate_weights(text, rng, p=0.5, allow_zero=False):
    """Rewrite some atoms of a fragment text with a weight annotation.  Plain C/N/O atoms become `[C;0.5]` or
    `[C;w=0.5]`, aromatic c becomes `[c;2]`, bracket atoms such as `[NH3+]` become `[NH3+;w=2]`.  Bonding
    descriptors are left alone.  Returns the new text (possibly unchanged)."""
    out = []
    i = 0
    n = len(text)
    # a zero weight only where another atom of the fragment keeps a positive one
    zero_used = sum(1 for c in text if c.isupper() or c in 'cnos') < 2
    while i < n:
        ch = text[i]
        if ch == '[':
            j = text.index(']', i)
            body = text[i + 1:j]
            is_descr = body[:1] in ('$', '!', '<', '>')
            if (not is_descr) and ';' not in body and rng.random() < p:
                out.append('[' + body + ';w=' + rng.choice(WEIGHTS) + ']')
            else:
                out.append(text[i:j + 1])
            i = j + 1
            continue
        if text[i:i + 2] in ('Cl', 'Br'):
            out.append(text[i:i + 2])
            i += 2
            continue
        if ch in 'CNOc' and rng.random() < p:
            w = rng.choice(WEIGHTS)
            if allow_zero and not zero_used and rng.random() < 0.15:
                w = '0'
                zero_used = True
            out.append('[%s;%s%s]' % (ch, rng.choice(['', 'w=']), w))
        else:
            out.append(ch)
        i += 1
    return ''.join(out)


# ------------------------------------------------------------------------------------------ base graphs
def render_base(tree_adj, root, names, closures=()):
    """Render a base graph given as a rooted spanning tree (dict node -> ordered children) plus ring closure
    pairs.  Children but the last go into parentheses, so the text never contains `))`."""
    ring_marks = {}
    for k, (u, v) in enumerate(closures, start=1):
        ring_marks.setdefault(u, []).append(str(k))
        ring_marks.setdefault(v, []).append(str(k))

    def rec(n):
        s = '[#%s]' % names[n] + ''.join(ring_marks.get(n, []))
        ch = tree_adj.get(n, [])
        for c in ch[:-1]:
            s += '(' + rec(c) + ')'
        if ch:
            s += rec(ch[-1])
        return s
    return '{' + rec(root) + '}'


def _random_bead_tree(rng, n, max_deg=3):
    adj = {0: []}
    deg = {0: 0}
    for i in range(1, n):
        cands = [k for k in adj if deg[k] < max_deg]
        par = rng.choice(cands[-3:]) if rng.random() < 0.7 else rng.choice(cands)
        adj[par].append(i)
        adj[i] = []
        deg[par] += 1
        deg[i] = 1
    return adj, deg


def random_assembly(rng, weights=False, max_beads=6):
    """A random tree of beads (max degree 3), optionally one ring of beads, fragments by number of sites."""
    n = rng.randint(2, max_beads)
    adj, deg = _random_bead_tree(rng, n)
    closures = []
    if n >= 3 and rng.random() < 0.3:
        # close a ring between two beads that are not adjacent and still have a free site budget
        par = {c: p for p, cs in adj.items() for c in cs}
        cands = [(u, v) for u in adj for v in adj if u < v and deg[u] < 3 and deg[v] < 3
                 and par.get(v) != u and par.get(u) != v]
        if cands:
            u, v = rng.choice(cands)
            closures.append((u, v))
            deg[u] += 1
            deg[v] += 1
    frags = {}
    node_name = {}
    defs = []
    for k in range(n):
        d = deg[k]
        if closures:
            pool = {1: SITES1, 2: RING_OK, 3: SITES3}[d]
        else:
            pool = {1: SITES1 if rng.random() < 0.7 else SITES2, 2: SITES2 if rng.random() < 0.85 else SITES3,
                    3: SITES3}[d]
        f = rng.choice(pool)
        if weights:
            f = annotate_weights(f, rng, allow_zero=True)
        if f not in frags:
            frags[f] = NAMES[len(frags)]
            defs.append('#%s=%s' % (frags[f], f))
        node_name[k] = frags[f]
    return render_base(adj, 0, node_name, closures) + '.{' + ','.join(defs) + '}'


def random_shared_chain(rng, weights=False, max_beads=5):
    """A chain of beads whose neighbours are joined by `$` or share a carbon atom through `!`."""
    n = rng.randint(2, max_beads)
    kinds = [rng.choice('!!$') for _ in range(n - 1)]
    if '!' not in kinds:
        kinds[rng.randrange(n - 1)] = '!'
    defs, names, seen = [], [], {}
    for k in range(n):
        left = kinds[k - 1] if k > 0 else None
        right = kinds[k] if k < n - 1 else None
        if left is None or right is None:
            body = rng.choice(SHARE_END if rng.random() < 0.6 else SHARE_BODY)
        else:
            body = rng.choice(SHARE_BODY)
        if weights:
            body = annotate_weights(body, rng)
        if left is None:
            # single site: on the first atom for SHARE_END-like bodies
            text = '[%s]' % right + body
        elif right is None:
            text = '[%s]' % left + body
        else:
            text = '[%s]' % left + body + '[%s]' % right
        if text not in seen:
            seen[text] = NAMES[len(seen)]
            defs.append('#%s=%s' % (seen[text], text))
        names.append(seen[text])
    return '{' + ''.join('[#%s]' % x for x in names) + '}.{' + ','.join(defs) + '}'


def single_fragment_strings():
    out = []
    for f in SITES1 + SITES2 + SITES3:
        out.append('{[#A]}.{#A=%s}' % f)
    return out


def pair_strings(left, right):
    out = []
    for a in left:
        for b in right:
            if a == b:
                out.append('{[#A][#A]}.{#A=%s}' % a)
            else:
                out.append('{[#A][#B]}.{#A=%s,#B=%s}' % (a, b))
    return out


def homopolymers(ns=(3, 5)):
    out = []
    for f in SITES2:
        for n in ns:
            out.append('{[#A]|%d}.{#A=%s}' % (n, f))
    return out


def weighted_fixed(seed_free_rng):
    """Weighted spellings of the fixed list and of some pairs; deterministic (own RNG, not the run seed)."""
    out = ['{[#A][#B]}.{#A=[C;0.5][C;w=2][$],#B=[$][O;w=3]}',
           '{[#A][#B][#A]}.{#A=[$]C[C;0.5][$],#B=[$]c1ccc(cc1)[$]}',
           '{[#A][#B]}.{#A=C[C;2][!]C,#B=[!][C;3]C(=O)O}',
           '{[#A][#B]}.{#A=[$][c;0.5]1ccc(cc1)[$],#B=[$]C}',
           '{[#A][#B]}.{#A=[$]CC([NH3+;w=2])[$],#B=[$]C}',
           '{[#A][#B]}.{#A=[Cl;2]C[$],#B=[$][S;0.5]C}',
           '{[#A][#B]}.{#A=[$]C[O;0][$],#B=[$]C}',
           '{[#A]|3}.{#A=[$][C;w=2]C[$]}',
           '{[#A]1[#B][#C]1}.{#A=[$][C;3]C[$],#B=[$][C;0.5][$],#C=[$][N;w=2][$]}']
    for a in SITES2[:12]:
        for b in SITES1[:6]:
            out.append('{[#A][#B]}.{#A=%s,#B=%s}' % (annotate_weights(a, seed_free_rng, 0.6),
                                                     annotate_weights(b, seed_free_rng, 0.6)))
    return out


def cgsmiles_strings(seed, n_random, weights=False, pairs='some', stereo=True, max_beads=6):
    """Fixed part first (seed independent), then n_random seeded assemblies."""
    if weights:
        yield from weighted_fixed(random.Random(20240))
    else:
        yield from FIXED
        if stereo:
            yield from STEREO
        yield from single_fragment_strings()
        if pairs == 'all':
            yield from pair_strings(SITES2, SITES1 + SITES2)
        elif pairs == 'most':
            yield from pair_strings(SITES2, SITES1[:10])
            yield from pair_strings(SITES2[:12], SITES2[:12])
        elif pairs == 'some':
            yield from pair_strings(SITES2[:8], SITES1[:6] + SITES2[:8])
        yield from homopolymers((3, 5) if pairs in ('all', 'most') else (3,))
    rng = random.Random(seed * 104729 + (17 if weights else 5))
    for i in range(n_random):
        if i % 3 == 2:
            yield random_shared_chain(rng, weights=weights)
        else:
            yield random_assembly(rng, weights=weights, max_beads=max_beads)


# ------------------------------------------------------------------------------------------ relabelings
KEY_KINDS_INT = ('same', 'canon', 'rev', 'perm', 'gap', 'neg', 'shift')
KEY_KINDS_OTHER = ('str', 'tuple', 'float')
ORDER_KINDS = ('same', 'rev', 'shuffle', 'sorted')
NODE_REF_ATTRS = ('ez_isomer',)
DROP_ATTRS = ('mapping', 'contraction', 'rs_isomer', 'graph')


def key_map(nodes, kind, seed=0):
    """Bijection old key -> new key.  `nodes` in iteration order."""
    nodes = list(nodes)
    n = len(nodes)
    try:
        ranked = sorted(nodes)
    except TypeError:
        ranked = sorted(nodes, key=repr)
    rank = {k: i for i, k in enumerate(ranked)}
    rng = random.Random(seed * 31 + 7)
    if kind == 'same':
        return {k: k for k in nodes}
    if kind == 'canon':       # key = position in iteration order (the only labelling the repo tests use)
        return {k: i for i, k in enumerate(nodes)}
    if kind == 'rev':
        return {k: ranked[n - 1 - rank[k]] for k in nodes}
    if kind == 'perm':
        p = ranked[:]
        rng.shuffle(p)
        return {k: p[rank[k]] for k in nodes}
    perm = list(range(n))
    if seed:
        rng.shuffle(perm)
    if kind == 'gap':
        return {k: 3 * perm[rank[k]] + 2 for k in nodes}
    if kind == 'neg':
        return {k: -(perm[rank[k]] + 1) for k in nodes}
    if kind == 'shift':
        return {k: perm[rank[k]] + 1000 for k in nodes}
    if kind == 'str':
        return {k: 'n%03d' % perm[rank[k]] for k in nodes}
    if kind == 'tuple':
        return {k: (perm[rank[k]] // 3, perm[rank[k]] % 3) for k in nodes}
    if kind == 'float':
        return {k: perm[rank[k]] + 0.5 for k in nodes}
    raise ValueError(kind)


def _ordered(nodes, new_of, order, seed):
    nodes = list(nodes)
    rng = random.Random(seed * 131 + 3)
    if order == 'rev':
        nodes.reverse()
    elif order == 'shuffle':
        rng.shuffle(nodes)
    elif order == 'sorted':
        nodes.sort(key=lambda k: new_of[k])
    return nodes


def relabel(G, spec, mapping=None):
    """Copy of G with keys mapped by spec['keys'] and nodes (and edges) inserted in spec['order'].
    Attributes are deep-copied; node-referencing attributes are mapped; DROP_ATTRS are dropped."""
    seed = spec.get('seed', 0)
    new_of = mapping if mapping is not None else key_map(G.nodes, spec.get('keys', 'same'), seed)
    order = spec.get('order', 'same')
    H = nx.Graph()
    for k in _ordered(G.nodes, new_of, order, seed):
        attrs = {a: copy.deepcopy(v) for a, v in G.nodes[k].items() if a not in DROP_ATTRS}
        for a in NODE_REF_ATTRS:
            if a in attrs:
                attrs[a] = [tuple(new_of[x] for x in t[:4]) + tuple(t[4:]) for t in attrs[a]]
        H.add_node(new_of[k], **attrs)
    edges = list(G.edges(data=True))
    if order != 'same':
        rng = random.Random(seed * 977 + 1)
        rng.shuffle(edges)
        edges = [(v, u, d) if rng.random() < 0.5 else (u, v, d) for u, v, d in edges]
    for u, v, d in edges:
        H.add_edge(new_of[u], new_of[v], **copy.deepcopy(d))
    return H, new_of


def relabel_pair(cg, aa, spec):
    """Relabel the fine graph, the coarse graph (its own keys, same kind) and every bead's member graph."""
    aa2, amap = relabel(aa, spec)
    cspec = dict(spec)
    cspec['seed'] = spec.get('seed', 0) + 1
    cmap = key_map(cg.nodes, spec.get('keys', 'same'), cspec['seed'])
    cg2 = nx.Graph()
    for k in _ordered(cg.nodes, cmap, spec.get('order', 'same'), cspec['seed']):
        attrs = {a: copy.deepcopy(v) for a, v in cg.nodes[k].items() if a not in DROP_ATTRS}
        sub, _ = relabel(cg.nodes[k]['graph'], spec, mapping=amap)
        attrs['graph'] = sub
        cg2.add_node(cmap[k], **attrs)
    for u, v, d in cg.edges(data=True):
        cg2.add_edge(cmap[u], cmap[v], **copy.deepcopy(d))
    return cg2, aa2, amap, cmap
